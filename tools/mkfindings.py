#!/usr/bin/env python3
"""Renders known_findings.json as KNOWN_FINDINGS.md (human-readable view; the checks read the JSON)."""
import json, os
HERE = os.path.dirname(os.path.dirname(os.path.abspath(__file__)))
k = json.load(open(os.path.join(HERE, "known_findings.json")))
out = ["# Known findings (generated from known_findings.json by tools/mkfindings.py)", "",
       "Open entries are genuine defects of trash-cli that are recorded, not repaired: a check prints",
       "`KNOWN-FINDING: property=<id> <finding> <what>` for them and exits 0; a violation whose tags do not",
       "match the entry's `match` is still reported as a VIOLATION. Fixed entries suppress nothing: their",
       "pinned reproducer runs as a regression case on every check.", "", "## open", ""]
for e in k["findings"]:
    if e["status"] == "open":
        out.append("open: property=%s %s match=%s — %s" % (e["property"], e["id"], json.dumps(e["match"]), e["what"]))
out += ["", "## fixed", ""]
for e in k["findings"]:
    if e["status"] == "fixed":
        out.append(e.get("record") or "fixed: property=%s %s %s" % (e["property"], e.get("commit"), e["what"]))
open(os.path.join(HERE, "KNOWN_FINDINGS.md"), "w").write("\n".join(out) + "\n")
