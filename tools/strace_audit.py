#!/venv/bin/python
"""Audit of the interposer against the kernel: runs scenarios under `strace -f` and checks that the
sequence of MUTATING system calls of the command process (after its chroot) is covered 1:1, in
order, by the interposer's trace of mutating operations.  This is the argument that the crash /
fault points of C05, C15 and C17 are ALL the points between two file-system operations.
Not a registered check (needs ptrace); results are quoted in DESIGN.md section 8."""
import json, os, re, subprocess, sys, tempfile

HERE = os.path.dirname(os.path.dirname(os.path.abspath(__file__)))
SC = [
 {"ents": [{"kind": "file", "name": "foo", "tree": [], "big": False}], "target": "home", "state": "first_use", "opts": [], "uid": 1000},
 {"ents": [{"kind": "file", "name": "foo", "tree": [], "big": True}], "target": "home", "state": "collision", "opts": ["-v"], "uid": 1000},
 {"ents": [{"kind": "tree", "name": "foo", "big": False, "tree": [{"p": "/E", "t": "d", "m": 493}, {"p": "/E/a", "t": "f", "c": "x", "m": 420}, {"p": "/E/d", "t": "d", "m": 493}, {"p": "/E/d/l", "t": "l", "to": "nowhere"}]}], "target": "fallback", "state": "first_use", "opts": [], "uid": 1000},
 {"ents": [{"kind": "link_dir", "name": "foo", "tree": [], "big": False}, {"kind": "file", "name": "bar", "tree": [], "big": True}], "target": "fallback", "state": "existing", "opts": [], "uid": 0},
 {"ents": [{"kind": "dir", "name": "foo", "tree": [], "big": False}], "target": "top_sticky", "state": "collision", "opts": [], "uid": 1000},
 {"_prop": "C15", "cmd": "restore_xdev", "ents": [{"kind": "tree", "where": "home", "old": True, "name": "a"}], "uid": 1000, "big": False},
 {"_prop": "C15", "cmd": "empty", "ents": [{"kind": "tree", "where": "home", "old": True, "name": "a"}, {"kind": "link", "where": "top_alt", "old": False, "name": "b"}], "uid": 1000, "big": False},
 {"_prop": "C15", "cmd": "rm", "ents": [{"kind": "tree", "where": "top_sticky", "old": True, "name": "a"}, {"kind": "file", "where": "home", "old": False, "name": "b"}], "uid": 0, "big": True},
]
MUT = ("mkdir|mkdirat|rename|renameat|renameat2|unlink|unlinkat|rmdir|symlink|symlinkat|link|linkat|"
       "chmod|fchmod|fchmodat|utimensat|utimes|sendfile|copy_file_range|truncate|ftruncate|"
       "chown|fchown|fchownat|lchown|setxattr|lsetxattr|fsetxattr|mknod|mknodat")
MAP = {"mkdirat": "mkdir", "renameat": "rename", "renameat2": "rename", "unlinkat": "unlink",
       "symlinkat": "symlink", "linkat": "link", "fchmodat": "chmod", "fchmodat2": "chmod", "utimensat": "utime",
       "utimes": "utime", "fchownat": "chown", "rmdir": "unlink", "fchmod": "fchmod"}
SAME = {"remove": "unlink", "rmdir": "unlink", "replace": "rename", "fopen": "open", "lchmod": "chmod"}


def run(sc, i):
    with tempfile.TemporaryDirectory() as td:
        cf, log = td + "/case.json", td + "/strace.log"
        json.dump(sc, open(cf, "w"))
        env = dict(os.environ, PYTHONPATH=HERE, PYTHONHASHSEED="0")
        p = subprocess.run(["strace", "-f", "-qq", "-o", log, "-e",
                            "trace=chroot,openat,open,creat,write,close,%s" % MUT.replace("|", ","),
                            "/venv/bin/python", "-m", "vt.audit_child", cf],
                           env=env, stdout=subprocess.PIPE, stderr=subprocess.PIPE)
        if p.returncode != 0:
            return "strace/child failed: %s" % p.stderr.decode()[-300:]
        tr = json.loads(p.stdout.decode())["trace"]
        lines = open(log, errors="replace").read().split("\n")
    pid = None
    sys_ops = []
    wfds = set()
    for ln in lines:
        m = re.match(r"^(\d+)\s+(\w+)\((.*)$", ln)
        if not m:
            continue
        p_, name, rest = m.group(1), m.group(2), m.group(3)
        if name == "chroot" and "/tmp/vtb/w" in rest and pid is None:
            pid = p_
            continue
        if pid is None or p_ != pid:
            continue
        ok = not re.search(r"= -1 E", rest)
        if name in ("openat", "open", "creat"):
            if re.search(r"O_WRONLY|O_RDWR|O_CREAT|O_TRUNC|O_APPEND", rest) or name == "creat":
                sys_ops.append("open")
                fdm = re.search(r"= (\d+)\s*$", rest)
                if fdm:
                    wfds.add(fdm.group(1))
        elif name == "write":
            fd = rest.split(",")[0].strip()
            if fd in wfds:
                sys_ops.append("write")
        elif name == "close":
            fd = rest.split(")")[0].strip()
            if fd in wfds:
                wfds.discard(fd)
                sys_ops.append("close")
        elif re.fullmatch(MUT, name):
            sys_ops.append(MAP.get(name, name))
    if sys_ops and sys_ops[-1] == "ftruncate":
        sys_ops.pop()  # the harness writing the trace memfd after the command has finished
    # python-level view, normalised; buffered file objects (fopen) issue write/close in C: the
    # interposer sees only the fopen, so the kernel's write/close on such fds are folded into it
    py_ops = [SAME.get(t[2], t[2]) for t in tr]
    # fold: kernel writes/closes directly following a buffered open are not separate python ops
    folded = []
    fop = [t[2] for t in tr]
    j = 0
    k = 0
    out_sys = []
    while k < len(sys_ops):
        out_sys.append(sys_ops[k])
        k += 1
    # compare as subsequence: every kernel mutating op must be matched, in order, by a python op
    # of the same kind, except write/close belonging to a python 'fopen' (buffered file)
    i_py = 0
    unmatched = []
    buffered = 0
    for s in sys_ops:
        if i_py < len(py_ops) and py_ops[i_py] == s:
            if fop[i_py] == "fopen":
                buffered += 1
            i_py += 1
        elif s in ("write", "close") and buffered > 0:
            if s == "close":
                buffered -= 1
        elif s == "fchmod" and i_py < len(py_ops) and py_ops[i_py] == "chmod":
            i_py += 1
        else:
            unmatched.append((s, i_py))
    extra_py = py_ops[i_py:]
    return {"scenario": i, "kernel_mutating_syscalls": len(sys_ops), "interposer_mutating_ops": len(py_ops),
            "kernel_ops_not_covered": unmatched[:5], "interposer_ops_without_syscall": extra_py[:5]}


if __name__ == "__main__":
    bad = 0
    for i, sc in enumerate(SC):
        r = run(sc, i)
        print(json.dumps(r))
        if not isinstance(r, dict) or r["kernel_ops_not_covered"]:
            bad += 1
    print("AUDIT %s" % ("OK" if not bad else "MISMATCH in %d scenarios" % bad))
    sys.exit(1 if bad else 0)
