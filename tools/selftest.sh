#!/bin/sh
# Applies each mutant of mutants/MUTANTS.tsv to a scratch worktree of /repo and runs the named
# check against it (quick tier, reduced scale). Writes mutants/RESULTS.md. Not a registered check.
cd "$(dirname "$0")/.."
SCALE=${1:-0.4}
echo "| prop | mutant | result |" > mutants/RESULTS.md; echo "|---|---|---|" >> mutants/RESULTS.md
grep -v '^#' mutants/MUTANTS.tsv | while IFS="$(printf '\t')" read -r PROP FILE EXPR NOTE; do
  [ -z "$PROP" ] && continue
  D=$(mktemp -d /tmp/selftest-XXXXXX); rmdir $D
  git -C /repo worktree add -q --detach $D HEAD >/dev/null 2>&1
  sed -i "$EXPR" $D/$FILE
  if git -C $D diff --quiet; then RES="NOT APPLIED"; else
    OUT=$(./check $PROP --repo $D --no-evidence --scale $SCALE 2>&1); RC=$?
    case $RC in 1) RES="caught";; 0) RES="MISSED";; *) RES="harness error";; esac
  fi
  echo "| $PROP | $NOTE | $RES |" | tee -a mutants/RESULTS.md
  git -C /repo worktree remove --force $D; rm -rf $D
done
