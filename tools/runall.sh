#!/bin/sh
# usage: [CHECKS='C01 C02'] tools/runall.sh [tier] [seed...]  -- run every registered check, print one line each
TIER=${1:-quick}; shift
SEEDS=${*:-1}
cd "$(dirname "$0")/.."
for s in $SEEDS; do
  for id in ${CHECKS:-C01 C02 C03 C04 C05 C06 C07 C08 C09 C10 C11 C12 C13 C14 C15 C16 C17 C18 C19 C20}; do
    out=$(VERIF_SEED=$s ./check $id --tier $TIER 2>&1); rc=$?
    echo "rc=$rc $(echo "$out" | tail -1)"
    echo "$out" | grep -E "^(VIOLATION|FAIL|harness)" | cut -c1-300
  done
done
