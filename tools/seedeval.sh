#!/bin/sh
# usage: tools/seedeval.sh <worktree> <name> <prop> [more props...]
# Confirms a seeded change (tests still pass, demo fails with / passes without) and runs checks against it.
WT=$1; NAME=$2; shift 2
OUT=/verif/seeded/$NAME
mkdir -p $OUT
# bring the worktree to /repo's HEAD, keeping the uncommitted change
git -C $WT checkout -q --detach $(git -C /repo rev-parse HEAD) 2>&1 | tail -1
git -C $WT diff -- trashcli trash-put trash-list trash-restore trash-empty trash-rm trash > $OUT/patch.diff
[ -s $OUT/patch.diff ] || { echo "EMPTY PATCH"; exit 2; }
cp -r $WT/seed_demo/. $OUT/demo/ 2>/dev/null || mkdir -p $OUT/demo; cp -r $WT/seed_demo/* $OUT/demo/ 2>/dev/null
find $OUT/demo -name __pycache__ -prune -exec rm -rf {} \; 2>/dev/null
echo "== tests with change"; (cd $WT && /venv/bin/python -m pytest -q -p no:cacheprovider --timeout=900 2>&1 | tail -1) | tee $OUT/tests_with_change.txt
DEMO=$WT/seed_demo/demo.py; [ -f $DEMO ] || DEMO=$(ls $WT/seed_demo/*.py | head -1)
echo "== demo with change ($DEMO)"
case "$DEMO" in
  *test_*) RUN="/venv/bin/python -m pytest -q -p no:cacheprovider $DEMO";;
  *) RUN="/venv/bin/python $DEMO";;
esac
(cd $WT && PYTHONPATH=$WT $RUN > $OUT/demo_with_change.txt 2>&1; echo "exit=$?" >> $OUT/demo_with_change.txt); tail -2 $OUT/demo_with_change.txt
echo "== demo without change"
(cd $WT && git apply -R $OUT/patch.diff && PYTHONPATH=$WT $RUN > $OUT/demo_without_change.txt 2>&1; echo "exit=$?" >> $OUT/demo_without_change.txt; git apply $OUT/patch.diff); tail -2 $OUT/demo_without_change.txt
for P in "$@"; do
  echo "== check $P against the change"
  /verif/check $P --repo $WT --no-evidence 2>&1 | grep -v '^  ' | cut -c1-400 | grep -v KNOWN-FINDING | tail -4 | tee $OUT/check_$P.txt
done
