#!/bin/sh
# Re-applies every kept seeded change (seeded/<id>/patch.diff) to a scratch worktree of /repo's HEAD
# and runs the first check listed under caught_by in its meta.json.  Writes seeded/REGRESS.md.
# usage: tools/seedregress.sh [scale] [id-prefix]     (not a registered check)
cd "$(dirname "$0")/.."
SCALE=${1:-1}
PFX=${2:-C}
OUT=${OUT:-seeded/REGRESS.md}
[ "$PFX" = "C" ] && { echo "| seeded change | check | result |" > $OUT; echo "|---|---|---|" >> $OUT; }
for d in seeded/${PFX}*/; do
  id=$(basename $d)
  [ -f $d/patch.diff ] || continue
  chk=$(python3 -c "import json,sys; m=json.load(open('$d/meta.json')); print(m['caught_by'][0].split()[0].strip(',;'))" 2>/dev/null) || continue
  D=$(mktemp -d /tmp/seedreg-XXXXXX); rmdir $D
  git -C /repo worktree add -q --detach $D HEAD >/dev/null 2>&1
  if git -C $D apply $PWD/$d/patch.diff 2>/dev/null || git -C $D apply --3way $PWD/$d/patch.diff 2>/dev/null; then
    OUTP=$(./check $chk --repo $D --no-evidence --scale $SCALE 2>&1); RC=$?
    case $RC in 1) RES="caught";; 0) RES="MISSED";; *) RES="harness error";; esac
  else
    RES="patch no longer applies to HEAD"
  fi
  echo "| $id | $chk | $RES |" | tee -a $OUT
  git -C /repo worktree remove --force $D 2>/dev/null; rm -rf $D
done
