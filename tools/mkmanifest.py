#!/usr/bin/env python3
"""Regenerates /verif/MANIFEST.json from the table below (keeps it valid at all times)."""
import json, os
HERE = os.path.dirname(os.path.dirname(os.path.abspath(__file__)))
CHECKS = {
 "C01": ("exploration", "4.C01",
         "property-based testing (Hypothesis): generated worlds x argument spellings x options, real trash-put, T/U + frame oracle over lstat snapshots",
         "Each generated argument must end fully trashed (one new info/payload pair deep-equal to the pre-snapshot) or untouched, with no stray info / orphan payload and an unchanged frame. Exploration of a very large structured input space (layouts, kinds, ~20 spellings, options); no exhaustiveness claimed.",
         "tmpfs + chroot world is faithful to a POSIX file system; own path resolver gives the identity of an argument; symlink mtimes not compared"),
}
NOT_APPLICABLE = {}
def main():
    props = [json.loads(l) for l in open(os.path.join(HERE, "properties.jsonl"))]
    checks = []
    for p in props:
        pid = p["id"]
        if pid not in CHECKS:
            continue
        level, ref, tech, text, note = CHECKS[pid]
        checks.append({
            "property_id": pid,
            "quick_cmd": "./check %s --tier quick" % pid,
            "thorough_cmd": "./check %s --tier thorough" % pid,
            "evidence_file": "evidence/%s.json" % pid,
            "replay_cmd_template": "./check %s --replay {path}" % pid,
            "engine": "vt",
            "level_claimed": {"category": level, "text": text, "design_ref": ref},
            "level_note": note,
            "technique": tech,
        })
    na = [{"property_id": p["id"], "reason": NOT_APPLICABLE.get(p["id"], "check not built yet (work in progress); will be decided by property-based testing as described in DESIGN.md section 4")}
          for p in props if p["id"] not in CHECKS]
    m = {
        "version": 1,
        "setup_cmd": "./setup.sh",
        "hooks": {"guard": "TRASHCLI_VERIF", "enable": "no source hooks: all interposition happens at the Python/OS boundary (vt/shim.py, vt/opsim.py) before trashcli is imported",
                  "baseline_off_cmd": "cd /repo && /venv/bin/python -m pytest -ra -q -p no:cacheprovider --timeout=900 --continue-on-collection-errors",
                  "source_commits": [], "add_only": True},
        "engines": [{"name": "vt", "path": "vt/", "serves_properties": [c["property_id"] for c in checks],
                     "kind_free_text": "Hypothesis-driven property-based testing of the real commands in generated tmpfs worlds (private mount namespace + chroot), os-level operation interposer for crash/fault/schedule enumeration, independent oracles"}],
        "checks": checks,
        "not_applicable": na,
        "notes": "Every check: ./check <ID> --tier quick|thorough [--repo DIR]; exit 0 held, 1 VIOLATION, 2 harness error. VERIF_SEED selects the Hypothesis seed. known_findings.json lists genuine defects (open / fixed).",
    }
    with open(os.path.join(HERE, "MANIFEST.json"), "w") as f:
        json.dump(m, f, indent=1)
        f.write("\n")
if __name__ == "__main__":
    main()
