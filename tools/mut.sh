#!/bin/sh
# usage: tools/mut.sh <ID> <file> <sed-expression> [scale]   -- run a check against a scratch mutant of /repo
ID=$1; FILE=$2; EXPR=$3; SCALE=${4:-0.3}
D=$(mktemp -d /tmp/mut-XXXXXX); rmdir $D
git -C /repo worktree add -q --detach $D HEAD >/dev/null 2>&1 || { echo "worktree failed"; exit 2; }
sed -i "$EXPR" $D/$FILE
if git -C $D diff --quiet; then echo "MUTANT DID NOT CHANGE ANYTHING"; fi
/verif/check $ID --repo $D --no-evidence --scale $SCALE 2>&1 | grep -v '^  ' | cut -c1-300 | grep -v KNOWN-FINDING | tail -5
git -C /repo worktree remove --force $D; rm -rf $D
