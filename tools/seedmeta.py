#!/usr/bin/env python3
"""Writes seeded/<name>/meta.json from the table below and regenerates seeded/README.md."""
import json, os
HERE = os.path.dirname(os.path.dirname(os.path.abspath(__file__)))
M = json.load(open(os.path.join(HERE, "seeded", "TABLE.json")))
rows = []
for name in sorted(M):
    m = M[name]
    d = os.path.join(HERE, "seeded", name)
    if not os.path.isdir(d):
        continue
    def rd(f):
        try:
            return open(os.path.join(d, f)).read().strip()
        except OSError:
            return "?"
    m["ran"] = ["tools/seedeval.sh <worktree> %s <checks>" % name,
                "existing tests with the change: " + rd("tests_with_change.txt"),
                "demo with change: " + rd("demo_with_change.txt").split("\n")[-1],
                "demo without change: " + rd("demo_without_change.txt").split("\n")[-1]]
    json.dump(m, open(os.path.join(d, "meta.json"), "w"), indent=1)
    rows.append("| %s | %s | %s | %s |" % (name, m["property"], m["needs"], "; ".join(m["caught_by"]) +
                                         (" — **missed before**: " + m["missed_before"] if m.get("missed_before") else "")))
head = open(os.path.join(HERE, "seeded", "README.md")).read().split("| id | property")[0]
open(os.path.join(HERE, "seeded", "README.md"), "w").write(
    head + "| id | property | needs | caught by |\n|----|----------|-------|-----------|\n" + "\n".join(rows) + "\n")
