#!/bin/sh
# Offline setup: make sure hypothesis is importable by /venv/bin/python (it is pre-installed
# there; otherwise install it from the offline wheelhouse into /verif/.deps).
HERE="$(cd "$(dirname "$0")" && pwd)"
if PYTHONPATH="$HERE/.deps" /venv/bin/python -c "import hypothesis, psutil, six" 2>/dev/null; then
  echo "setup: hypothesis available"; exit 0
fi
/venv/bin/pip install --no-index --find-links /opt/veriftools/wheels --target "$HERE/.deps" hypothesis || exit 1
PYTHONPATH="$HERE/.deps" /venv/bin/python -c "import hypothesis; print('setup: installed hypothesis', hypothesis.__version__)"
