#!/bin/sh
# Offline setup: make sure hypothesis is importable by /venv/bin/python (it is pre-installed
# there; otherwise install it from the offline wheelhouse into /verif/.deps), and install
# atheris (coverage-guided stage of C03 / C12 / C13 / C20) next to it.  A missing atheris is
# not fatal: that stage is then skipped and says so in the evidence.
HERE="$(cd "$(dirname "$0")" && pwd)"
WH=/opt/veriftools/wheels
if ! PYTHONPATH="$HERE/.deps" /venv/bin/python -c "import hypothesis, psutil, six" 2>/dev/null; then
  /venv/bin/pip install --no-index --find-links $WH --target "$HERE/.deps" hypothesis || exit 1
fi
PYTHONPATH="$HERE/.deps" /venv/bin/python -c "import hypothesis; print('setup: hypothesis', hypothesis.__version__)" || exit 1
if ! PYTHONPATH="$HERE/.deps" /venv/bin/python -c "import atheris" 2>/dev/null; then
  /venv/bin/pip install -q --no-index --find-links $WH --target "$HERE/.deps" atheris 2>/dev/null \
    || echo "setup: atheris not installable here (coverage-guided stage will be skipped)"
fi
PYTHONPATH="$HERE/.deps" /venv/bin/python -c "import atheris; print('setup: atheris available')" 2>/dev/null || true
exit 0
