"""Verification toolkit for trash-cli (property-based testing / fuzzing harness).

Layout
  sandbox.py  private mount namespace, tmpfs worlds, snapshots
  shim.py     patches applied before trashcli is imported (clock, psutil, uid)
  opsim.py    os-level operation interposer (trace, crash, fault, gate)
  runner.py   fork + chroot execution of the real command scripts
  oracle.py   independent reference implementations (codec, glob, realpath, trash-dir table)
  gen.py      Hypothesis strategies
  driver.py   sharding, statistics, evidence, replay, known findings
  props/      one module per property C01..C20
"""
