"""Check driver: sharding, Hypothesis campaign, bucketing of failures, known
findings, replay files and evidence.

usage: check <ID> [--tier quick|thorough] [--replay FILE] [--repo DIR]
                  [--shards N] [--scale F]
exit 0  property held on everything explored (KNOWN-FINDING lines possible)
exit 1  VIOLATION property=<ID> replay=<path>
exit 2  harness error / inconclusive
"""
import argparse
import hashlib
import importlib
import json
import multiprocessing
import os
import sys
import time
import traceback
from collections import Counter

VERIF = os.path.dirname(os.path.dirname(os.path.abspath(__file__)))
KNOWN_FILE = os.path.join(VERIF, "known_findings.json")


class Fail(object):
    """one violated clause of the oracle"""

    def __init__(self, clause, msg, **tags):
        self.clause = clause
        self.msg = msg
        self.tags = dict(tags)
        self.tags["clause"] = clause

    def as_dict(self):
        return {"clause": self.clause, "msg": self.msg, "tags": self.tags}

    def bucket(self):
        return self.clause + "|" + ",".join("%s=%s" % kv for kv in sorted(self.tags.items())
                                            if kv[0] != "clause")


class Outcome(object):
    def __init__(self):
        self.fails = []
        self.key = None        # canonical descriptor if the case is non-trivial
        self.classes = []      # labels for the class histogram
        self.sample = None     # compact description for evidence
        self.commands = 0
        self.keys = []         # further non-trivial descriptors (e.g. one per crash point)

    def fail(self, clause, msg, **tags):
        self.fails.append(Fail(clause, msg, **tags))


class Violation(Exception):
    pass


def load_known(prop_id):
    try:
        with open(KNOWN_FILE) as f:
            data = json.load(f)
    except FileNotFoundError:
        return []
    return [e for e in data.get("findings", []) if e.get("property") == prop_id]


def matches(entry, fail):
    m = entry.get("match") or {}
    if not m:
        return False
    for k, allowed in m.items():
        v = fail.tags.get(k)
        if not isinstance(allowed, list):
            allowed = [allowed]
        if v not in allowed:
            return False
    return True


def split_fails(fails, known_open):
    known, unknown = [], []
    for f in fails:
        hit = None
        for e in known_open:
            if matches(e, f):
                hit = e
                break
        if hit is not None:
            known.append((hit["id"], f))
        else:
            unknown.append(f)
    return known, unknown


# ------------------------------------------------------------------ shard worker

def _shard(args):
    (prop_id, tier, seed, shard, nshards, repo, scale, tmax) = args
    try:
        return _shard_inner(prop_id, tier, seed, shard, nshards, repo, scale, tmax)
    except BaseException:
        return {"error": traceback.format_exc(), "shard": shard}


def _shard_inner(prop_id, tier, seed, shard, nshards, repo, scale, tmax):
    os.environ["PYTHONHASHSEED"] = "0"
    from . import sandbox, shim, runner
    shim.install(repo)
    sandbox.enter_namespace()
    import hypothesis
    from hypothesis import HealthCheck, Phase, given, settings
    prop = importlib.import_module("vt.props." + prop_id.lower())
    known_open = [e for e in load_known(prop_id) if e.get("status") == "open"]

    st = {"evaluations": 0, "commands": 0, "keys": set(), "classes": Counter(),
          "samples": [], "known_hits": Counter(), "failures": [], "shard": shard,
          "grid_cells": 0, "timed_out": False, "errors": []}
    session_buckets = set()
    last = {"case": None, "fails": None}
    t_start = time.time()

    def execute(case, raising):
        c0 = runner.COUNT[0]
        out = prop.run_case(case)
        st["evaluations"] += 1
        st["commands"] += runner.COUNT[0] - c0
        for c in out.classes:
            st["classes"][c] += 1
        allkeys = ([out.key] if out.key is not None else []) + list(getattr(out, "keys", []) or [])
        for key in allkeys:
            k = key if isinstance(key, str) else json.dumps(key, sort_keys=True)
            if k not in st["keys"]:
                st["keys"].add(k)
                if len(st["samples"]) < 6 and out.sample is not None and key is allkeys[0]:
                    st["samples"].append(out.sample)
        known, unknown = split_fails(out.fails, known_open)
        for fid, _f in known:
            st["known_hits"][fid] += 1
        fresh = [f for f in unknown if f.bucket() not in session_buckets]
        if fresh and raising:
            last["case"], last["fails"] = case, fresh
            raise Violation(fresh[0].bucket() + ": " + fresh[0].msg)
        return out, fresh

    # 1. exhaustive grid, partitioned over shards
    grid = (prop.grid(tier) or []) if hasattr(prop, "grid") else []
    for i, case in enumerate(grid):
        if i % nshards != shard:
            continue
        if time.time() - t_start > tmax:
            st["timed_out"] = True
            break
        st["grid_cells"] += 1
        out, fresh = execute(case, False)
        if fresh:
            for f in fresh:
                session_buckets.add(f.bucket())
            st["failures"].append({"case": case, "fails": [f.as_dict() for f in fresh],
                                   "origin": "grid"})

    # 2. Hypothesis campaign(s); each discovered bucket is recorded, then the
    #    campaign is restarted with that bucket muted so the search continues.
    n = max(1, int(prop.examples(tier) * scale / nshards)) if hasattr(prop, "examples") else 0
    phases = [Phase.generate, Phase.shrink]
    rounds = 0
    while n > 0 and rounds < 4:
        rounds += 1

        def body(case):
            if time.time() - t_start > tmax:
                st["timed_out"] = True
                return
            execute(case, True)

        test = given(prop.strategy(tier))(body)
        test = settings(max_examples=n, database=None, deadline=None,
                        report_multiple_bugs=False, phases=phases,
                        suppress_health_check=list(HealthCheck),
                        derandomize=False, print_blob=False,
                        verbosity=hypothesis.Verbosity.quiet)(test)
        test = hypothesis.seed(seed * 1000 + shard * 10 + rounds)(test)
        try:
            test()
            break
        except Violation:
            fails = last["fails"]
            for f in fails:
                session_buckets.add(f.bucket())
            st["failures"].append({"case": last["case"],
                                   "fails": [f.as_dict() for f in fails],
                                   "origin": "hypothesis"})
        except hypothesis.errors.Flaky as e:
            st["errors"].append("flaky: %s" % e)
            if last["fails"]:
                for f in last["fails"]:
                    session_buckets.add(f.bucket())
                st["failures"].append({"case": last["case"],
                                       "fails": [f.as_dict() for f in last["fails"]],
                                       "origin": "hypothesis-flaky"})
            break
        except (sandbox.HarnessError, KeyboardInterrupt, SystemExit):
            raise
        except Exception as e:
            # an error inside the library while it was SHRINKING a failing case it had already
            # found (seen: ValueError in choice_to_index): the unshrunk failure stands
            if not last["fails"] or "hypothesis" not in traceback.format_exc():
                raise
            st["errors"].append("shrinker error (%s: %s); unshrunk failing case kept" % (type(e).__name__, e))
            for f in last["fails"]:
                session_buckets.add(f.bucket())
            st["failures"].append({"case": last["case"],
                                   "fails": [f.as_dict() for f in last["fails"]],
                                   "origin": "hypothesis-unshrunk"})
            break
    sandbox.destroy_world()
    st["keys"] = sorted(st["keys"])
    st["classes"] = dict(st["classes"])
    st["known_hits"] = dict(st["known_hits"])
    return st


# ------------------------------------------------------------------ main

def write_replay(prop_id, case, fails, seed, tier):
    d = os.path.join(VERIF, "out", "replay")
    os.makedirs(d, exist_ok=True)
    blob = json.dumps({"property": prop_id, "case": case, "fails": fails, "seed": seed,
                       "tier": tier}, indent=1, sort_keys=True)
    h = hashlib.sha256(blob.encode()).hexdigest()[:12]
    path = os.path.join(d, "%s-%s.json" % (prop_id, h))
    with open(path, "w") as f:
        f.write(blob)
    return path


def run_single(prop_id, repo, case):
    if "fuzz_target" in case:    # an input saved by the coverage-guided stage (function level)
        from . import fuzzstage
        out = Outcome()
        failure = fuzzstage.replay(case, repo)
        if failure is not None:
            out.fail(failure[0], failure[1], stage="fuzz", target=case["fuzz_target"])
        return out
    from . import sandbox, shim
    shim.install(repo)
    sandbox.enter_namespace()
    prop = importlib.import_module("vt.props." + prop_id.lower())
    out = prop.run_case(case)
    sandbox.destroy_world()
    return out


def _single_worker(args):
    prop_id, repo, case = args
    try:
        out = run_single(prop_id, repo, case)
        return {"fails": [f.as_dict() for f in out.fails]}
    except BaseException:
        return {"error": traceback.format_exc()}


def in_subprocess(fn, arg):
    ctx = multiprocessing.get_context("fork")
    with ctx.Pool(1) as pool:
        return pool.apply(fn, (arg,))


def main(argv=None):
    ap = argparse.ArgumentParser()
    ap.add_argument("prop")
    ap.add_argument("--tier", default=os.environ.get("VERIF_TIER", "quick"),
                    choices=["quick", "thorough"])
    ap.add_argument("--replay")
    ap.add_argument("--repo", default=os.environ.get("VERIF_REPO", "/repo"))
    ap.add_argument("--shards", type=int, default=0)
    ap.add_argument("--scale", type=float, default=float(os.environ.get("VERIF_SCALE", "1")))
    ap.add_argument("--no-evidence", action="store_true")
    a = ap.parse_args(argv)
    prop_id = a.prop.upper()
    seed = int(os.environ.get("VERIF_SEED", "1") or "1")
    os.environ["PYTHONHASHSEED"] = "0"
    t0 = time.time()
    try:
        prop = importlib.import_module("vt.props." + prop_id.lower())
    except ImportError as e:
        print("harness error: %s" % e)
        return 2
    known = load_known(prop_id)
    known_open = [e for e in known if e.get("status") == "open"]

    if a.replay:
        with open(a.replay) as f:
            rp = json.load(f)
        res = in_subprocess(_single_worker, (prop_id, a.repo, rp["case"]))
        if "error" in res:
            print(res["error"])
            return 2
        fails = [Fail(d["clause"], d["msg"], **{k: v for k, v in d["tags"].items()
                                                 if k != "clause"}) for d in res["fails"]]
        kn, unknown = split_fails(fails, known_open)
        for fid, f in kn:
            print("KNOWN-FINDING: property=%s %s %s" % (prop_id, fid, f.msg))
        for f in unknown:
            print("FAIL %s: %s" % (f.bucket(), f.msg))
        if unknown:
            print("VIOLATION property=%s replay=%s" % (prop_id, a.replay))
            return 1
        print("replay: property held")
        return 0

    nshards = a.shards or min(16, os.cpu_count() or 1)
    tmax = prop.time_budget(a.tier) if hasattr(prop, "time_budget") else \
        (150 if a.tier == "quick" else 3000)
    violations = []   # (case, fails, origin)
    known_lines = []

    # pinned reproducers of known findings / regression cases of fixed ones
    for e in known:
        if "repro" not in e:
            continue
        res = in_subprocess(_single_worker, (prop_id, a.repo, e["repro"]))
        if "error" in res:
            print("harness error in reproducer %s:\n%s" % (e["id"], res["error"]))
            return 2
        fails = [Fail(d["clause"], d["msg"], **{k: v for k, v in d["tags"].items()
                                                 if k != "clause"}) for d in res["fails"]]
        if e.get("status") == "open":
            mine = [f for f in fails if matches(e, f)]
            if mine:
                known_lines.append("KNOWN-FINDING: property=%s %s %s" % (prop_id, e["id"], e["what"]))
            else:
                print("note: open finding %s did not reproduce on this tree" % e["id"])
            _kn, other = split_fails(fails, known_open)
            if other:
                violations.append((e["repro"], [f.as_dict() for f in other], "repro-" + e["id"]))
        else:  # fixed: suppresses nothing
            _kn, other = split_fails(fails, known_open)
            if other:
                violations.append((e["repro"], [f.as_dict() for f in other],
                                   "regression-" + e["id"]))

    ctx = multiprocessing.get_context("fork")
    jobs = [(prop_id, a.tier, seed, s, nshards, a.repo, a.scale, tmax) for s in range(nshards)]
    with ctx.Pool(nshards) as pool:
        results = pool.map(_shard, jobs, chunksize=1)
    errs = [r for r in results if "error" in r]
    if errs:
        print("harness error:\n" + errs[0]["error"])
        return 2

    keys = set()
    classes = Counter()
    known_hits = Counter()
    samples = []
    evaluations = commands = grid_cells = 0
    timed_out = False
    notes = []
    for r in results:
        evaluations += r["evaluations"]
        commands += r["commands"]
        grid_cells += r["grid_cells"]
        timed_out = timed_out or r["timed_out"]
        keys.update(r["keys"])
        classes.update(r["classes"])
        known_hits.update(r["known_hits"])
        notes.extend(r["errors"])
        for s in r["samples"]:
            if len(samples) < 8:
                samples.append(s)
        for f in r["failures"]:
            violations.append((f["case"], f["fails"], f["origin"]))

    # second search strategy (coverage-guided, function level) where the property has one
    from . import fuzzstage
    try:
        fz = fuzzstage.run(prop_id, a.tier, seed, a.repo, a.scale)
    except Exception:
        print("harness error in the coverage-guided stage:\n" + traceback.format_exc())
        return 2
    fuzz_ev = None
    if fz is not None:
        evaluations += fz["execs"]
        keys.update("fuzz:" + k for k in fz["labels"])
        classes.update({"fuzz:execs": fz["execs"]})
        if fz["note"]:
            notes.append(fz["note"])
        fuzz_ev = {"engine": "atheris/libFuzzer", "target": fuzzstage.TARGETS[prop_id],
                   "executions": fz["execs"], "distinct_labels": len(fz["labels"]),
                   "label_histogram_top": dict(sorted(fz["labels"].items(), key=lambda kv: -kv[1])[:12])}
        if fz["failure"] is not None:
            c = fz["failure"]
            case = {"fuzz_target": c["fuzz_target"], "input_hex": c["input_hex"]}
            violations.append((case, [{"clause": c["clause"], "msg": c["msg"],
                                       "tags": {"stage": "fuzz", "target": c["fuzz_target"]}}], "fuzz"))

    for ln in known_lines:
        print(ln)
    seen_buckets = set()
    exit_code = 0
    nviol = 0
    for case, fails, origin in violations:
        b = fails[0]["clause"] + json.dumps(fails[0]["tags"], sort_keys=True)
        if b in seen_buckets:
            continue
        seen_buckets.add(b)
        nviol += 1
        path = write_replay(prop_id, case, fails, seed, a.tier)
        print("FAIL (%s) %s: %s" % (origin, fails[0]["clause"], fails[0]["msg"]))
        print("VIOLATION property=%s replay=%s" % (prop_id, path))
        exit_code = 1

    wall = time.time() - t0
    if not a.no_evidence:
        ev = {
            "property_id": prop_id, "tier": a.tier, "seed": seed, "level": prop.LEVEL,
            "coverage": {
                "evaluations": evaluations,
                "distinct_nontrivial": len(keys),
                "rule": prop.RULE,
                "samples": samples,
                "commands_executed": commands,
                "class_histogram": dict(sorted(classes.items())),
                "grid_cells": grid_cells,
                "exhaustive": bool(getattr(prop, "EXHAUSTIVE_GRID", False) and grid_cells > 0
                                   and not timed_out),
                "known_finding_hits_excluded": dict(known_hits),
                "shards": nshards,
                "budget_exhausted_before_completion": timed_out,
                "notes": notes,
                "coverage_guided_stage": fuzz_ev,
            },
            "assumptions": list(getattr(prop, "ASSUMPTIONS", [])) + [
                "Linux tmpfs semantics in a private mount namespace; commands run chroot()ed "
                "into the generated world with the real entry scripts of the working tree",
                "crash / fault points are Python-level os.* operation boundaries"],
            "wall_s": round(wall, 2),
            "violations": nviol,
        }
        os.makedirs(os.path.join(VERIF, "evidence"), exist_ok=True)
        with open(os.path.join(VERIF, "evidence", prop_id + ".json"), "w") as f:
            json.dump(ev, f, indent=1, sort_keys=True)
            f.write("\n")
    print("%s %s seed=%d: %d cases (%d commands), %d distinct non-trivial, %d violation(s), "
          "%.1fs%s" % (prop_id, a.tier, seed, evaluations, commands, len(keys), nviol, wall,
                       " [time budget reached]" if timed_out else ""))
    if exit_code == 0 and (evaluations == 0 or len(keys) < 2):
        print("harness error: campaign was vacuous")
        return 2
    return exit_code


if __name__ == "__main__":
    sys.exit(main())
