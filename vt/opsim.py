"""Operation interposer: every os-level file-system entry point used by
trash-cli (directly or through shutil / os.makedirs / os.path) is wrapped.

Armed only inside a forked command child (runner.py).  Per child it gives
  * a numbered trace of operations,
  * crash-at-k  : os._exit(137) immediately before the k-th mutating op,
  * fault-at-k  : raise OSError(errno) instead of the k-th op (any op), one
                  shot or persistent for the same (op, path),
  * an operation budget (a run that exceeds it exits 98),
  * gate        : block before ops on shared paths until the scheduler in the
                  parent releases this process,
  * readdir permutation for os.listdir.
The functions are replaced on the os / builtins modules, so shutil, os.makedirs,
os.path.* and pathlib all funnel through them.
"""
import builtins
import errno as _errno
import io
import json
import os
import random

_real = {}


class _State:
    armed = False
    n_all = 0
    n_mut = 0
    trace = None
    crash_at = None      # index (1-based) of mutating op before which to die
    crash_after = None   # index of mutating op right AFTER which to die (user-space buffers are lost)
    interrupt = None     # (k, "before"|"after"): raise KeyboardInterrupt around mutating op k (SIGINT)
    faults = ()          # list of dicts {k:int|None, op:str|None, path:str|None, errno:int, persistent:bool}
    budget = 200000
    trace_fd = None
    gate = None          # (report_fd, go_fd, prefixes)
    perm_seed = None
    wfds = None          # fds opened for writing through os.open
    dirfds = None        # fd -> path for everything opened through os.open
    stdin_reads = 0
    full_trace = False
    ro_dirs = None       # {realpath of a directory: "ro" | "append"}: its entries cannot be changed


S = _State()

MUT = ("mkdir rmdir unlink remove rename replace link symlink truncate chmod lchmod "
       "chown lchown utime setxattr removexattr mkfifo mknod").split()
MUT_FD = "write ftruncate fchmod fchown fsync sendfile copy_file_range".split()
READ = "stat lstat access listdir scandir readlink".split()


def _p(x):
    if isinstance(x, bytes):
        return x.decode("utf-8", "surrogateescape")
    if isinstance(x, int):
        return "fd:%s" % S.dirfds.get(x, x) if S.dirfds is not None else "fd:%d" % x
    try:
        return os.fspath(x)
    except TypeError:
        return repr(x)


def _abspath(p, dir_fd=None):
    if not isinstance(p, str):
        return p
    if p.startswith("fd:"):
        return p[3:]
    if p.startswith("/"):
        return p
    if dir_fd is not None:
        base = S.dirfds.get(dir_fd, "?fd%d" % dir_fd)
    else:
        try:
            base = _real["getcwd"]()
        except OSError:
            base = "?"
    return base.rstrip("/") + "/" + p


def dump_trace():
    if S.trace_fd is not None:
        data = json.dumps({"n_all": S.n_all, "n_mut": S.n_mut, "trace": S.trace,
                           "stdin_reads": S.stdin_reads}).encode()
        _real["lseek"](S.trace_fd, 0, 0)
        _real["ftruncate"](S.trace_fd, 0)
        _real["write"](S.trace_fd, data)


def _die(code):
    dump_trace()
    os._exit(code)


def _gate(name, paths):
    report_fd, go_fd, prefixes = S.gate
    for p in paths:
        if isinstance(p, str) and any(p == q or p.startswith(q + "/") for q in prefixes):
            _real["write"](report_fd, (json.dumps([name, p]) + "\n").encode())
            b = _real["read"](go_fd, 1)
            if not b:
                os._exit(97)
            return


_RO_REMOVE = ("unlink", "remove", "rmdir")
_RO_CREATE = ("mkdir", "symlink", "mkfifo", "mknod")


def _real_parent(p):
    S.armed = False
    try:
        d, _, b = p.rstrip("/").rpartition("/")
        return os.path.realpath(d or "/")
    finally:
        S.armed = True


def _ro_check(name, paths, a):
    """A directory listed in plan['ro_dirs'] behaves like one the user may not write ("ro":
    EACCES on adding or removing entries) or like an append-only one ("append": EPERM on
    removing entries).  Cross-device renames are left to the kernel (EXDEV comes first)."""
    def mode_of(p):
        return S.ro_dirs.get(_real_parent(p)) if isinstance(p, str) else None

    def itself(p):
        S.armed = False
        try:
            return S.ro_dirs.get(os.path.realpath(p)) if os.path.isdir(p) and \
                not os.path.islink(p) else None
        finally:
            S.armed = True
    bad = None
    if name in _RO_REMOVE:
        bad = mode_of(paths[0])
    elif name in _RO_CREATE:
        bad = mode_of(paths[0]) == "ro" and "ro"
    elif name == "link":
        bad = mode_of(paths[1]) == "ro" and "ro"
    elif name in ("rename", "replace"):
        src, dst = paths[0], paths[1]
        S.armed = False
        try:
            try:
                xdev = os.lstat(_real_parent(src)).st_dev != os.lstat(_real_parent(dst)).st_dev
            except OSError:
                xdev = False
        finally:
            S.armed = True
        if not xdev:
            bad = mode_of(src) or itself(src) or (mode_of(dst) == "ro" and "ro")
    elif name in ("open", "fopen"):
        fl = paths[1]
        creat = (fl & os.O_CREAT) if isinstance(fl, int) else any(c in fl for c in "wax")
        if creat and mode_of(paths[0]) == "ro":
            S.armed = False
            try:
                if not os.path.lexists(paths[0]):
                    bad = "ro"
            finally:
                S.armed = True
    if bad:
        e = _errno.EACCES if bad == "ro" else _errno.EPERM
        S.trace.append([S.n_all, 0, name, paths, "RO %d" % e])
        raise OSError(e, os.strerror(e), paths[0])


def _op(name, mut, orig, paths, a, kw):
    S.n_all += 1
    if mut:
        S.n_mut += 1
    if S.n_all > S.budget:
        S.trace.append([S.n_all, S.n_mut if mut else 0, name, paths, "BUDGET"])
        _die(98)
    if mut and S.crash_at is not None and S.n_mut == S.crash_at:
        S.trace.append([S.n_all, S.n_mut, name, paths, "CRASH"])
        _die(137)
    if mut and S.interrupt is not None and S.interrupt[0] == S.n_mut and S.interrupt[1] == "before":
        S.trace.append([S.n_all, S.n_mut, name, paths, "SIGINT before"])
        S.interrupt = None
        raise KeyboardInterrupt()
    if S.gate is not None:
        _gate(name, paths)
    if S.ro_dirs and mut:
        _ro_check(name, paths, a)
    for f in S.faults:
        hit = False
        if f.get("k") is not None and f["k"] == S.n_all:
            hit = True
            if f.get("persistent"):
                f["op"], f["path"], f["k"] = name, paths[0] if paths else None, None
                if f.get("scope") == "dir" and isinstance(f["path"], str):
                    # from now on the same operation fails on every path of that directory
                    f["dir"] = f["path"].rsplit("/", 1)[0]
        elif f.get("k") is None and f.get("op") == name and f.get("dir") is not None and \
                paths and isinstance(paths[0], str) and paths[0].rsplit("/", 1)[0] == f["dir"]:
            hit = True
        elif f.get("k") is None and f.get("op") == name and f.get("dir") is None and \
                (f.get("path") is None or (paths and f["path"] == paths[0])):
            hit = True
        if hit:
            e = f["errno"]
            S.trace.append([S.n_all, S.n_mut if mut else 0, name, paths, "FAULT %d" % e])
            if name == "close":
                try:
                    orig(*a, **kw)
                except OSError:
                    pass
            raise OSError(e, os.strerror(e), paths[0] if paths else None)
    try:
        r = orig(*a, **kw)
    except OSError as e:
        if mut or S.full_trace:
            S.trace.append([S.n_all, S.n_mut if mut else 0, name, paths,
                            "E%d" % (e.errno or 0)])
        raise
    if mut or S.full_trace:
        S.trace.append([S.n_all, S.n_mut if mut else 0, name, paths, "ok"])
    if mut and S.crash_after is not None and S.n_mut == S.crash_after:
        S.trace.append([S.n_all, S.n_mut, name, paths, "CRASH after"])
        _die(137)
    if mut and S.interrupt is not None and S.interrupt[0] == S.n_mut and S.interrupt[1] == "after":
        S.trace.append([S.n_all, S.n_mut, name, paths, "SIGINT after"])
        S.interrupt = None
        raise KeyboardInterrupt()
    return r


def _wrap_path(name, mut, npaths=1):
    orig = getattr(os, name)
    _real[name] = orig

    def w(*a, **kw):
        if not S.armed:
            return orig(*a, **kw)
        if name == "symlink":  # first arg is the link text, not a path
            src = a[0] if a else kw.get("src")
            dst = a[1] if len(a) > 1 else kw.get("dst")
            paths = [_abspath(_p(dst), kw.get("dir_fd")), "->" + _p(src)]
        elif npaths == 2:
            src = a[0] if a else kw.get("src")
            dst = a[1] if len(a) > 1 else kw.get("dst")
            paths = [_abspath(_p(src), kw.get("src_dir_fd")),
                     _abspath(_p(dst), kw.get("dst_dir_fd"))]
        else:
            x = a[0] if a else kw.get("path", kw.get("fd"))
            paths = [_abspath(_p(x), kw.get("dir_fd"))]
        return _op(name, mut, orig, paths, a, kw)

    w.__name__ = name
    w.__wrapped__ = orig
    setattr(os, name, w)


def _install():
    if _real:
        return
    for nm in ("getcwd", "lseek", "read"):
        _real[nm] = getattr(os, nm)
    for nm in MUT:
        if hasattr(os, nm):
            _wrap_path(nm, True, 2 if nm in ("rename", "replace", "link", "symlink") else 1)
    for nm in READ:
        _wrap_path(nm, False)

    # ---- os.open / close / write and friends -------------------------------
    o_open, o_close, o_write = os.open, os.close, os.write
    _real.update(open=o_open, close=o_close, write=o_write,
                 ftruncate=os.ftruncate)
    WR = os.O_WRONLY | os.O_RDWR | os.O_CREAT | os.O_TRUNC | os.O_APPEND

    def w_open(path, flags, mode=0o777, *, dir_fd=None):
        if not S.armed:
            return o_open(path, flags, mode, dir_fd=dir_fd)
        ap = _abspath(_p(path), dir_fd)
        mut = bool(flags & WR)

        def do(path, flags, mode, dir_fd=None):
            fd = o_open(path, flags, mode, dir_fd=dir_fd)
            S.dirfds[fd] = ap
            if mut:
                S.wfds.add(fd)
            return fd
        return _op("open", mut, do, [ap, flags], (path, flags, mode), {"dir_fd": dir_fd})

    def w_close(fd):
        if not S.armed:
            return o_close(fd)
        if fd in S.wfds:
            S.wfds.discard(fd)
            ap = S.dirfds.pop(fd, "?")
            return _op("close", True, o_close, [ap], (fd,), {})
        S.dirfds.pop(fd, None)
        return o_close(fd)

    def w_write(fd, data):
        if not S.armed or fd not in S.wfds:
            return o_write(fd, data)
        return _op("write", True, o_write, [S.dirfds.get(fd, "?"), len(data)], (fd, data), {})

    os.open, os.close, os.write = w_open, w_close, w_write

    def wrap_fd(name):
        if not hasattr(os, name):
            return
        orig = getattr(os, name)
        _real.setdefault(name, orig)

        def w(*a, **kw):
            if not S.armed:
                return orig(*a, **kw)
            fd = a[0] if a else None
            return _op(name, True, orig, [S.dirfds.get(fd, "fd%s" % fd)], a, kw)
        w.__name__ = name
        setattr(os, name, w)
    for nm in MUT_FD:
        if nm != "write":
            wrap_fd(nm)

    o_read = os.read

    def w_read(fd, n):
        if S.armed and fd == 0:
            S.stdin_reads += 1
        return o_read(fd, n)
    os.read = w_read

    # ---- listdir permutation ----------------------------------------------
    ld = os.listdir  # already wrapped (trace) -- add permutation on top

    def w_listdir(path="."):
        r = ld(path)
        if S.armed and S.perm_seed is not None:
            r = sorted(r, key=lambda x: x if isinstance(x, str) else x.decode("latin-1"))
            random.Random("%s:%s" % (S.perm_seed, _p(path))).shuffle(r)
        return r
    os.listdir = w_listdir

    # ---- builtins.open / io.open ------------------------------------------
    b_open = builtins.open
    _real["bopen"] = b_open

    def w_bopen(file, mode="r", *a, **kw):
        if not S.armed or isinstance(file, int):
            return b_open(file, mode, *a, **kw)
        ap = _abspath(_p(file))
        mut = any(c in mode for c in "wax+")

        def do(file, mode, *a, **kw):
            f = b_open(file, mode, *a, **kw)
            try:
                S.dirfds[f.fileno()] = ap
            except Exception:
                pass
            return f
        return _op("fopen", mut, do, [ap, mode], (file, mode) + a, kw)
    builtins.open = w_bopen
    io.open = w_bopen


def arm(plan=None, trace_fd=None):
    """Called in the forked child, after chroot, right before the command runs."""
    plan = plan or {}
    S.n_all = S.n_mut = 0
    S.trace = []
    S.crash_at = plan.get("crash_at")
    S.crash_after = plan.get("crash_after")
    S.interrupt = tuple(plan["interrupt"]) if plan.get("interrupt") else None
    S.faults = [dict(f) for f in plan.get("faults", ())]
    S.budget = plan.get("budget", 200000)
    S.trace_fd = trace_fd
    S.gate = plan.get("gate")
    S.perm_seed = plan.get("perm_seed")
    S.full_trace = bool(plan.get("full_trace"))
    S.ro_dirs = dict(plan.get("ro_dirs") or {}) or None
    S.wfds = set()
    S.dirfds = {}
    S.stdin_reads = 0
    S.armed = True


def disarm():
    S.armed = False
