"""Run the real command scripts of the repository inside a world.

run() forks; the child rewires stdio, chroots into the world (so the world root
is '/'), installs environment, uid, clock, mount table, arms the interposer and
executes the compiled script exactly as `python trash-put ARGS` would
(__name__ == '__main__').  It never returns into the caller.
"""
import datetime as _dt
import io
import json
import os
import resource
import signal
import sys
import time
import traceback
from collections import namedtuple

from . import opsim, sandbox, shim

Result = namedtuple("Result", "code out err trace n_all n_mut stdin_used signal")

COUNT = [0]  # commands executed by this process


def _memfd(name, data=b""):
    fd = os.memfd_create(name, 0)
    if data:
        os.write(fd, data)
        os.lseek(fd, 0, 0)
    return fd


def _slurp(fd):
    os.lseek(fd, 0, 0)
    chunks = []
    while True:
        b = os.read(fd, 1 << 16)
        if not b:
            break
        chunks.append(b)
    return b"".join(chunks)


def parse_now(s):
    if "." in s:
        return shim._real_datetime.strptime(s, "%Y-%m-%dT%H:%M:%S.%f")
    return shim._real_datetime.strptime(s, "%Y-%m-%dT%H:%M:%S")


def _child(spec, script, args, cwd, stdin_fd, out_fd, err_fd, trace_fd, plan, env_extra, tty):
    code = 70
    try:
        os.dup2(stdin_fd, 0)
        os.dup2(out_fd, 1)
        os.dup2(err_fd, 2)
        sys.stdin = io.TextIOWrapper(io.FileIO(0, "r", closefd=False), encoding="utf-8",
                                     errors="strict")
        raw_out = io.FileIO(1, "w", closefd=False)
        if plan and plan.get("stdout_buffer"):
            # block-buffered like a real pipe, with a small buffer so that the flush boundaries fall
            # inside a short run
            # two layers as in CPython: the text layer keeps a chunk back, the binary one a buffer
            sys.stdout = io.TextIOWrapper(io.BufferedWriter(raw_out, buffer_size=plan["stdout_buffer"]),
                                          encoding="utf-8", errors="strict")
            sys.stdout._CHUNK_SIZE = max(2, plan["stdout_buffer"])
        else:
            sys.stdout = io.TextIOWrapper(raw_out, encoding="utf-8", errors="strict",
                                          line_buffering=bool(tty))
        sys.stderr = io.TextIOWrapper(io.FileIO(2, "w", closefd=False), encoding="utf-8",
                                      errors="backslashreplace", line_buffering=True)
        sys.__stdin__, sys.__stdout__, sys.__stderr__ = sys.stdin, sys.stdout, sys.stderr
        os.chroot(sandbox.W)
        os.chdir("/")
        try:
            os.chdir(cwd)
        except OSError as e:
            if e.errno != 36:   # ENAMETOOLONG: a working directory deeper than PATH_MAX
                raise
            for c in cwd.split("/"):
                if c:
                    os.chdir(c)
        env = dict(spec.get("env", {}))
        env.update(env_extra or {})
        env = {k: v for k, v in env.items() if v is not None}
        tz = spec.get("tz")       # hours east of UTC (may be fractional), a POSIX TZ string, or None
        if isinstance(tz, str):
            env.setdefault("TZ", tz)     # e.g. "CET-1CEST,M3.5.0,M10.5.0/3" (with daylight saving time)
        elif tz is not None:
            # POSIX TZ string (needs no zoneinfo files): "VTZ-9" is UTC+9, "VTZ8" is UTC-8
            a = abs(tz)
            env.setdefault("TZ", "VTZ%s%d:%02d" % ("-" if tz > 0 else "", int(a), int(round((a - int(a)) * 60))))
        os.environ.clear()
        os.environ.update(env)
        time.tzset()
        os.umask(spec.get("umask", 0o022))
        uid = spec.get("uid", 1000)
        vols = ["/"] + list(spec.get("vols", []))
        vnow = parse_now(spec.get("now", "2020-02-02T02:02:02"))
        _e, off = shim.set_epoch(vnow)
        shim.set_world(spec.get("partitions", vols), uid, vnow, int(off), spec.get("fstype"),
                       (plan or {}).get("clock_step", 0))
        if plan and plan.get("nofile"):
            # a small descriptor table: leaked descriptors become EMFILE
            resource.setrlimit(resource.RLIMIT_NOFILE,
                               (plan["nofile"], resource.getrlimit(resource.RLIMIT_NOFILE)[1]))
        sys.argv = [os.path.join(shim.repo_dir, script)] + list(args)
        # the command gets the interpreter's default recursion depth (1000 frames) on top of the
        # harness frames it is started from (Hypothesis raises the limit of the calling process)
        depth, fr = 0, sys._getframe()
        while fr is not None:
            depth, fr = depth + 1, fr.f_back
        sys.setrecursionlimit(1000 + depth)
        signal.alarm(int(plan.get("alarm", 30)) if plan else 30)
        opsim.arm(plan, trace_fd)
        try:
            exec(shim.code[script], {"__name__": "__main__", "__file__": sys.argv[0],
                                     "__builtins__": __builtins__})
            code = 0
        except SystemExit as e:
            c = e.code
            if c is None:
                code = 0
            elif isinstance(c, int):
                code = c & 0xFF
            else:
                opsim.disarm()
                try:
                    sys.stderr.write(str(c) + "\n")
                except Exception:
                    pass
                code = 1
        except KeyboardInterrupt:
            code = 130
        except BaseException:
            opsim.disarm()
            try:
                traceback.print_exc()
            except Exception:
                pass
            code = 1
        opsim.disarm()
        try:
            sys.stdout.flush()
        except Exception:
            try:
                sys.stderr.write("Exception ignored on flushing sys.stdout\n")
            except Exception:
                pass
            if code == 0:
                code = 120
        try:
            sys.stderr.flush()
        except Exception:
            pass
        opsim.dump_trace()
    except BaseException:
        try:
            os.write(2, ("HARNESS-CHILD-ERROR\n" + traceback.format_exc()).encode())
        except Exception:
            pass
        code = 70
    finally:
        os._exit(code)


class Handle(object):
    pass


def spawn(spec, script, args, cwd=None, stdin="", plan=None, env=None, tty=False,
          close_in_child=(), keep_in_parent=(), closed_stdout=False):
    """fork a command child; returns a Handle for finish()."""
    COUNT[0] += 1
    h = Handle()
    cwd = cwd or spec.get("cwd", "/")
    h.out_is_pipe = bool(closed_stdout)
    if closed_stdout:
        # stdout is a pipe whose reader has gone away (`trash-empty -v | head -1`): every flush of
        # the command's output fails with EPIPE (SIGPIPE is ignored, as under a Python parent)
        r_, h.out_fd = os.pipe()
        os.close(r_)
    else:
        h.out_fd = _memfd("out")
    h.err_fd = _memfd("err")
    h.trace_fd = _memfd("trace")
    h.master = None
    if tty:
        h.master, h.stdin_fd = os.openpty()
    else:
        h.stdin_fd = _memfd("in", stdin.encode("utf-8", "surrogateescape"))
    plan = dict(plan or {})
    sys.stdout.flush()
    sys.stderr.flush()
    pid = os.fork()
    if pid == 0:
        for fd in close_in_child:
            try:
                os.close(fd)
            except OSError:
                pass
        if h.master is not None:
            os.close(h.master)
            if tty != "noctty":
                # (tty="noctty": stdin is a terminal, but not the controlling terminal of the command -
                # Popen(stdin=<pty slave>), `setsid cmd`, a background job)
                os.setsid()
                try:
                    import fcntl
                    import termios
                    fcntl.ioctl(h.stdin_fd, termios.TIOCSCTTY, 0)
                except Exception:
                    pass
        _child(spec, script, args, cwd, h.stdin_fd, h.out_fd, h.err_fd, h.trace_fd, plan, env, tty)
    h.pid = pid
    if h.master is not None and stdin is not None:
        os.write(h.master, stdin.encode("utf-8", "surrogateescape"))
    return h


def finish(h):
    _, status = os.waitpid(h.pid, 0)
    sig = None
    if os.WIFSIGNALED(status):
        sig = os.WTERMSIG(status)
        code = 128 + sig
    else:
        code = os.WEXITSTATUS(status)
    out = b"" if getattr(h, "out_is_pipe", False) else _slurp(h.out_fd)
    err = _slurp(h.err_fd)
    tr = _slurp(h.trace_fd)
    stdin_used = 0
    if h.master is None:
        stdin_used = os.lseek(h.stdin_fd, 0, 1)
    for fd in (h.out_fd, h.err_fd, h.trace_fd, h.stdin_fd):
        os.close(fd)
    if h.master is not None:
        os.close(h.master)
    t = {"trace": [], "n_all": 0, "n_mut": 0, "stdin_reads": 0}
    if tr:
        try:
            t = json.loads(tr)
        except ValueError:
            pass
    if code == 70 and b"HARNESS-CHILD-ERROR" in err:
        raise sandbox.HarnessError("child setup failed: %s" % err.decode("utf-8", "replace"))
    return Result(code, out.decode("utf-8", "surrogateescape"),
                  err.decode("utf-8", "surrogateescape"), t["trace"], t["n_all"], t["n_mut"],
                  stdin_used, sig)


def run(spec, script, args, cwd=None, stdin="", plan=None, env=None, tty=False, closed_stdout=False):
    """Execute one command in the current world and wait for it.  Returns Result.

    stdin: text fed to the command's standard input (a regular memfd, so EOF
    follows the text); tty=True gives the command a pseudo terminal instead.
    """
    return finish(spawn(spec, script, args, cwd, stdin, plan, env, tty, closed_stdout=closed_stdout))


def run_scheduled(spec, jobs, schedule, prefixes, max_steps=5000):
    """Run several commands concurrently under a harness-owned schedule.

    jobs: list of (script, args, kwargs).  Every os-level operation of a child on a path
    under one of `prefixes` is a scheduling point: the child reports it and blocks until
    released.  Exactly one child runs at a time.  schedule: list of (process, steps)
    segments; when exhausted the remaining processes run to completion in index order.
    Returns (results, steps) where steps is the executed [(process, op, path)] sequence.
    """
    import select
    n = len(jobs)
    rep = [os.pipe() for _ in range(n)]
    go = [os.pipe() for _ in range(n)]
    hs = []
    for i, (script, args, kw) in enumerate(jobs):
        plan = dict(kw.pop("plan", None) or {})
        plan["gate"] = (rep[i][1], go[i][0], list(prefixes))
        close = [rep[j][0] for j in range(n)] + [go[j][1] for j in range(n)] + \
            [rep[j][1] for j in range(n) if j != i] + [go[j][0] for j in range(n) if j != i]
        hs.append(spawn(spec, script, args, plan=plan, close_in_child=close, **kw))
    for i in range(n):
        os.close(rep[i][1])
        os.close(go[i][0])
    state = ["running"] * n   # running | waiting | done
    pending = [None] * n
    bufs = [b""] * n

    def pump(i):
        """block until child i is at a gate or has exited"""
        while state[i] == "running":
            r, _, _ = select.select([rep[i][0]], [], [], 30)
            if not r:
                raise sandbox.HarnessError("scheduled child %d silent for 30 s" % i)
            data = os.read(rep[i][0], 65536)
            if not data:
                state[i] = "done"
                return
            bufs[i] += data
            if b"\n" in bufs[i]:
                line, _, bufs[i] = bufs[i].partition(b"\n")
                pending[i] = json.loads(line)
                state[i] = "waiting"

    for i in range(n):
        pump(i)
    steps = []
    segs = [list(s) for s in schedule]
    while any(s == "waiting" for s in state) and len(steps) < max_steps:
        cur = None
        while segs:
            p, k = segs[0]
            p = p % n
            if k <= 0 or state[p] != "waiting":
                segs.pop(0)
                continue
            segs[0][1] -= 1
            cur = p
            break
        if cur is None:
            cur = [i for i in range(n) if state[i] == "waiting"][0]
        steps.append((cur, pending[cur][0], pending[cur][1]))
        state[cur] = "running"
        os.write(go[cur][1], b"g")
        pump(cur)
    for i in range(n):
        os.close(go[i][1])   # anything still blocked sees EOF and exits 97
    results = [finish(h) for h in hs]
    for i in range(n):
        os.close(rep[i][0])
    return results, steps
