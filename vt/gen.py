"""Hypothesis strategies shared by the property modules.

All generated values are plain JSON-able data (dict / list / str / int) so a
case can be written out as a replay file as it is.  File names are str with
surrogateescape for bytes that are not valid UTF-8.
"""
from hypothesis import strategies as st

# ------------------------------------------------------------------ names

_PLAIN = list("abcdefgxyzABZ0189")
_SPECIAL = [" ", "\n", "\r", "\t", "%", "=", "[", "]", "+", "#", "?", "*", "\\", "'", '"', ";",
            "&", "~", "!", "-", ".", "_", "$", "(", ")", "{", "}", "<", ">", "|", "`", ":", "@",
            ",", "^"]
_UNI = ["é", "ü", "中", "文", "\U0001f600", "é", "�", " ",
        "​", "‮", "Ж"]
_CTRL = [chr(c) for c in (1, 2, 7, 8, 0x0b, 0x0c, 0x1b, 0x1f, 0x7f)]
_RAW = [bytes([c]).decode("utf-8", "surrogateescape") for c in (0x80, 0x9f, 0xa0, 0xc3, 0xe9,
                                                                 0xff, 0xfe, 0xc0)]
_TOKENS = ["%20", "%2F", "%41", "%%", "%zz", "..", "...", "_1", ".trashinfo", "Path=", "\\n",
           "%0A", "~", "-f", "--"]


def name_chars(raw=False):
    parts = [(6, st.sampled_from(_PLAIN)), (3, st.sampled_from(_SPECIAL)),
             (2, st.sampled_from(_UNI)), (1, st.sampled_from(_CTRL)),
             (1, st.sampled_from(_TOKENS))]
    if raw:
        parts.append((2, st.sampled_from(_RAW)))
    pool = []
    for w, s in parts:
        pool.extend([s] * w)
    return st.one_of(*pool)


def _valid_name(n):
    b = n.encode("utf-8", "surrogateescape")
    return n not in ("", ".", "..") and "/" not in n and "\0" not in n and len(b) <= 255


def _canon(n):
    """the str a real argv / readdir would give for these bytes (adjacent escaped bytes that
    happen to form valid UTF-8 become the character, not two lone surrogates)"""
    return n.encode("utf-8", "surrogateescape").decode("utf-8", "surrogateescape")


def names(raw=False, long_ok=True, simple=False):
    return _names(raw, long_ok, simple).map(_canon)


@st.composite
def _names(draw, raw=False, long_ok=True, simple=False):
    if simple:
        return draw(st.text(alphabet="abcdefgh", min_size=1, max_size=5))
    mode = draw(st.integers(0, 19))
    if mode == 19 and long_ok:  # long names, around the NAME_MAX / '.trashinfo' boundary
        n = draw(st.sampled_from([200, 244, 245, 246, 250, 254, 255]))
        c = draw(st.sampled_from(["a", "é", "%"]))
        s = (c * n)
        b = s.encode("utf-8")[:n]
        s = b.decode("utf-8", "ignore")
        return s if _valid_name(s) else "a" * n
    if mode <= 6 or mode == 19:
        return draw(st.text(alphabet="abcdef", min_size=1, max_size=6))
    if mode == 7:
        return draw(st.sampled_from(["-", "-f", "--", "-rf", ".hidden", "..x", ". ", " ", "~",
                                     ".trashinfo", "x.trashinfo", "a_1", "foo", "foo_1", "...", "....",
                                     "a.trashinfo.d",
                                     "Path=x", "[Trash Info]", "%", "%41", "a%2Fb", "*", "?",
                                     "[a]", "\n", "a\nb", "a\rb", "\\", "$HOME", "`x`",
                                     # names that look like keys of a .trashinfo once their newline is un-escaped
                                     "r\nDeletionDate=2001-01-01T00:00:00", "r\nPath=x", "x%0ADeletionDate=1999-01-01T00:00:00",
                                     "c++", "a+b"]))
    chars = draw(st.lists(name_chars(raw), min_size=1, max_size=8))
    s = "".join(chars)
    if not _valid_name(s):
        s = "n" + s.replace("/", "_").replace("\0", "_")
        s = s[:40]
    if s in (".", ".."):
        s = "dot" + s
    return s


def name_class(n):
    """coarse byte-class descriptor used for distinctness keys"""
    cl = set()
    b = n.encode("utf-8", "surrogateescape")
    try:
        b.decode("utf-8")
    except UnicodeDecodeError:
        cl.add("nonutf8")
    for c in b:
        if c < 0x20 or c == 0x7f:
            cl.add("nl" if c in (10, 13) else "ctrl")
        elif c >= 0x80:
            cl.add("hi")
        elif chr(c) in "%":
            cl.add("pct")
        elif chr(c) in " ":
            cl.add("sp")
        elif chr(c).isalnum() or chr(c) in "._-":
            pass
        else:
            cl.add("punct")
    if n.startswith("-"):
        cl.add("dash")
    if n.startswith("."):
        cl.add("dot")
    if len(b) > 200:
        cl.add("long")
    return "+".join(sorted(cl)) or "plain"


# ------------------------------------------------------------------ contents / entries

def contents():
    return st.one_of(
        st.just(""), st.text(alphabet="abc\n\xff\x00", max_size=20),
        st.sampled_from(["hello\n", "x" * 4096, "[Trash Info]\nPath=/x\n"]))


KINDS = ["file", "empty", "dir", "tree", "link_file", "link_dir", "link_dangling", "link_link", "fifo"]


@st.composite
def entry_nodes(draw, path, kind, link_targets=None, big=False):
    """nodes creating one entry of the given kind at world path `path`"""
    modes_f = [0o644, 0o600, 0o755, 0o444, 0o000, 0o640, 0o4755, 0o2755, 0o6711, 0o1644]
    modes_d = [0o755, 0o700, 0o555, 0o750, 0o1777, 0o2775, 0o000, 0o111]
    mt = draw(st.sampled_from([None, 1, 946684800, 1234567890, 2000000000]))
    def m(n):
        if mt is not None:
            n["mt"] = mt
        return n
    if kind == "file":
        n = {"p": path, "t": "f", "c": draw(contents()) or "z", "m": draw(st.sampled_from(modes_f))}
        if big:
            n["rep"] = draw(st.sampled_from([1, 1, 80]))
        return [m(n)]
    if kind == "empty":
        return [m({"p": path, "t": "f", "c": "", "m": draw(st.sampled_from(modes_f))})]
    if kind == "dir":
        return [m({"p": path, "t": "d", "m": draw(st.sampled_from(modes_d))})]
    if kind == "tree":
        nodes = [m({"p": path, "t": "d", "m": draw(st.sampled_from(modes_d))})]
        dirs = [path]
        k = draw(st.integers(1, 6))
        used = set()
        for i in range(k):
            parent = draw(st.sampled_from(dirs))
            nm = draw(names(long_ok=False))
            p = parent + "/" + nm
            if p in used or p.count("/") - path.count("/") > 3:
                continue
            used.add(p)
            t = draw(st.sampled_from(["f", "f", "d", "l"]))
            if t == "d":
                nodes.append({"p": p, "t": "d", "m": draw(st.sampled_from(modes_d))})
                dirs.append(p)
            elif t == "f":
                nodes.append({"p": p, "t": "f", "c": draw(contents()),
                              "m": draw(st.sampled_from(modes_f))})
            else:
                tg = draw(st.sampled_from((link_targets or []) + ["nowhere", "/nonexistent", ".",
                                                                  "..", "../..", "/"]))
                nodes.append({"p": p, "t": "l", "to": tg})
        return nodes
    if kind.startswith("link"):
        return [m({"p": path, "t": "l", "to": draw(st.sampled_from(link_targets))})]
    if kind == "fifo":
        return [m({"p": path, "t": "p", "m": draw(st.sampled_from([0o644, 0o600, 0o666]))})]
    raise ValueError(kind)


# ------------------------------------------------------------------ layouts

LAYOUTS = {
    # name: (vols, home)
    "flat": ([], "/home/u"),
    "homevol": (["/home"], "/home/u"),
    "onevol": (["/mnt/a"], "/home/u"),
    "twovol": (["/home", "/mnt/a"], "/home/u"),
    "nested": (["/mnt/a", "/mnt/a/in"], "/home/u"),
    "threevol": (["/home", "/mnt/a", "/mnt/a/in", "/b"], "/home/u"),
}

TOP_STATES = ["absent", "sticky", "nonsticky", "link_sticky", "link_nonsticky", "file", "setgid",
              "setuid"]
ALT_STATES = ["absent", "dir", "file"]


def topdir_nodes(vol, uid, top_state, alt_state, populate_uid_dir=False):
    """nodes creating $vol/.Trash and $vol/.Trash-$uid in the requested states"""
    v = vol.rstrip("/")
    nodes = []
    if top_state == "sticky":
        nodes.append({"p": v + "/.Trash", "t": "d", "m": 0o1777})
    elif top_state == "nonsticky":
        nodes.append({"p": v + "/.Trash", "t": "d", "m": 0o777})
    elif top_state == "setgid":   # special bits other than the sticky one do not make it secure
        nodes.append({"p": v + "/.Trash", "t": "d", "m": 0o2777})
    elif top_state == "setuid":
        nodes.append({"p": v + "/.Trash", "t": "d", "m": 0o4755})
    elif top_state == "link_sticky":
        nodes.append({"p": v + "/.real-trash", "t": "d", "m": 0o1777})
        nodes.append({"p": v + "/.Trash", "t": "l", "to": ".real-trash"})
    elif top_state == "link_nonsticky":
        nodes.append({"p": v + "/.real-trash", "t": "d", "m": 0o777})
        nodes.append({"p": v + "/.Trash", "t": "l", "to": ".real-trash"})
    elif top_state == "file":
        nodes.append({"p": v + "/.Trash", "t": "f", "c": "not a dir"})
    if populate_uid_dir and top_state in ("sticky", "nonsticky", "link_sticky",
                                          "link_nonsticky", "setgid", "setuid"):
        base = v + ("/.Trash" if not top_state.startswith("link") else "/.real-trash")
        nodes.append({"p": base + "/%d" % uid, "t": "d", "m": 0o700})
    if alt_state == "dir":
        nodes.append({"p": v + "/.Trash-%d" % uid, "t": "d", "m": 0o700})
    elif alt_state == "file":
        nodes.append({"p": v + "/.Trash-%d" % uid, "t": "f", "c": "not a dir"})
    return nodes


def trashed_pair_nodes(tdir, name, path_value_bytes, date, payload_nodes=None, content="old"):
    """nodes for one pre-existing trashed pair in trash dir tdir"""
    from .oracle import make_info
    info = make_info(path_value_bytes, date)
    nodes = [{"p": tdir + "/info/" + name + ".trashinfo", "t": "b", "b": list(info), "m": 0o600}]
    if payload_nodes is None:
        nodes.append({"p": tdir + "/files/" + name, "t": "f", "c": content})
    else:
        nodes.extend(payload_nodes)
    return nodes


def date_str(secs):
    """seconds since 2000-01-01T00:00:00 (virtual, timezone free) -> ISO string"""
    import datetime as _dt
    from . import shim
    base = shim._real_datetime(2000, 1, 1)
    return (base + _dt.timedelta(seconds=secs)).strftime("%Y-%m-%dT%H:%M:%S")


# ------------------------------------------------------------------ harness-written trash content

class TrashWorld(object):
    """Assemble a world whose trash directories are written by the harness.

    entries: list of dict(tdir, name, orig, date, info, payload, kind, base) where orig is
    the absolute original location the entry must be read as."""

    def __init__(self, vols=(), home="/home/u", uid=1000, env=None):
        self.vols = list(vols)
        self.home = home
        self.uid = uid
        self.nodes = []
        self.entries = []
        self.env = dict(env or {"HOME": home})
        self._names = {}

    def home_trash(self):
        return self.home + "/.local/share/Trash"

    def top_trash(self, vol, which):
        v = vol.rstrip("/")
        return v + ("/.Trash/%d" % self.uid if which == "sticky" else "/.Trash-%d" % self.uid)

    def ensure_tdir(self, tdir, base):
        """create the (empty) skeleton of a trash dir; base None = home trash"""
        if base is not None and "/.Trash/" in tdir:
            self.nodes.append({"p": base.rstrip("/") + "/.Trash", "t": "d", "m": 0o1777})
        self.nodes.append({"p": tdir, "t": "d", "m": 0o700})
        self.nodes.append({"p": tdir + "/files", "t": "d", "m": 0o700})
        self.nodes.append({"p": tdir + "/info", "t": "d", "m": 0o700})

    def unique_name(self, tdir, base):
        used = self._names.setdefault(tdir, set())
        n, k = base, 0
        while n in used:
            k += 1
            n = "%s_%d" % (base, k)
        used.add(n)
        return n

    def add(self, tdir, base, orig, date, kind="file", content="payload", name=None,
            link_to="nowhere", info_bytes=None, path_value=None, payload=True, mt=None):
        from .oracle import make_info
        from .sandbox import fsenc
        self.ensure_tdir(tdir, base)
        name = name or self.unique_name(tdir, orig.rstrip("/").rsplit("/", 1)[-1])
        if path_value is None:
            if base is None:
                path_value = fsenc(orig)
            else:
                b = base.rstrip("/")
                path_value = fsenc(orig[len(b) + 1:])
        if info_bytes is None:
            info_bytes = make_info(path_value, date)
        ip = tdir + "/info/" + name + ".trashinfo"
        pp = tdir + "/files/" + name
        self.nodes.append({"p": ip, "t": "b", "b": list(info_bytes), "m": 0o600})
        if payload:
            if kind in ("file", "empty"):
                n = {"p": pp, "t": "f", "c": content if kind == "file" else "", "m": 0o640}
                if mt:
                    n["mt"] = mt
                self.nodes.append(n)
            elif kind in ("dir", "tree"):
                self.nodes.append({"p": pp, "t": "d", "m": 0o750})
                self.nodes.append({"p": pp + "/inner", "t": "f", "c": content})
                if kind == "tree":
                    self.nodes.append({"p": pp + "/sub/deep", "t": "f", "c": "deep" + content})
                    self.nodes.append({"p": pp + "/sub/lnk", "t": "l", "to": link_to})
            elif kind.startswith("link"):
                self.nodes.append({"p": pp, "t": "l", "to": link_to})
            elif kind == "fifo":     # a special file as payload (what `trash-put my.fifo` leaves)
                self.nodes.append({"p": pp, "t": "p", "m": 0o640})
        e = dict(tdir=tdir, name=name, orig=orig, date=date, info=ip, payload=pp if payload else None,
                 kind=kind, base=base)
        self.entries.append(e)
        return e

    def spec(self, cwd="/", now="2021-03-04T05:06:07", **kw):
        s = {"vols": self.vols, "nodes": self.nodes, "env": self.env, "uid": self.uid,
             "cwd": cwd, "now": now}
        s.update(kw)
        return s


def list_line(e):
    return "%s %s" % (e["date"].replace("T", " "), e["orig"])


# ------------------------------------------------------------------ populated worlds (strategies)

def draw_layout(draw, layouts=None, uids=(1000, 0)):
    lay = draw(st.sampled_from(layouts or sorted(LAYOUTS)))
    vols, home = LAYOUTS[lay]
    tw = TrashWorld(vols, home, draw(st.sampled_from(list(uids))))
    tw.layout = lay
    return tw


def draw_tdirs(draw, tw, top_kinds=("alt", "sticky"), always_home=True):
    """choose which trash directories exist: [(tdir, base)]; base None = home trash"""
    tds = [(tw.home_trash(), None)] if always_home or draw(st.booleans()) else []
    for v in ["/"] + tw.vols:
        for which in top_kinds:
            if draw(st.booleans()):
                tds.append((tw.top_trash(v, which), v))
    if not tds:
        tds.append((tw.home_trash(), None))
    return tds


def orig_dirs(tw, base):
    """directories an original location may live in, for a trash dir with the given base"""
    from .oracle import volume_of
    if base is None:
        hv = volume_of(tw.vols, tw.home)
        root = "" if hv == "/" else hv
        return [tw.home + "/w", tw.home + "/w/sub dir", tw.home, root + "/data" if root == "" else root + "/shared"]
    b = base.rstrip("/")
    return [b + "/w", b + "/w/sub dir", b + "/deep/er/still"]
