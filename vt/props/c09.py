"""C09 -- trash-list shows exactly what is in the trash after any history of commands."""
import re

from hypothesis import strategies as st

from .. import gen, oracle, runner, sandbox
from ..driver import Outcome
from ..sandbox import fsdec, subtree

ID = "C09"
LEVEL = "exploration"
RULE = ("Model-based (stateful) testing: Hypothesis generates a history of 3-25 operations over a "
        "2-3 volume world - put(path slot, spelling), recreate(slot), mk_top(volume: a sticky $topdir/.Trash appears mid-history), restore(directory, answer = index | range | list | both, "
        "sort), bulk put of every free slot in one invocation, rm(pattern), empty(), empty(DAYS) with TRASH_DATE, advance_clock - interpreted "
        "against the real commands and against an abstract BAG of (original path, date, payload "
        "digest): put adds one element; restore removes the element printed at the chosen index "
        "(unless its destination exists); rm removes the elements selected by an own glob "
        "matcher; empty removes all / those older than DAYS by integer-second arithmetic. "
        "Invariant after EVERY step: the multiset of records printed by trash-list == the bag, "
        "and the pairs found on disk by an own scanner (decoded path, date, payload digest) == "
        "the bag. Non-trivial: history with >= 3 puts into >= 2 trash dirs and >= 1 removal "
        "followed by a further put; distinct by the sequence of operation kinds.")
ASSUMPTIONS = ["default trash directories only (no --trash-dir)",
               "one virtual-clock tick (61 s) per command, so (path, date) identifies an element"]

SLOTS = ["/home/u/w/a", "/home/u/w/b", "/home/u/w/sub/a", "/home/u/w/sub/deep/c d", "/data/a",
         "/vol/d/a", "/vol/d/b", "/vol/d/sub/a", "/vol2/x/a", "/home/u/w/a b\nc", "/home/u/w/...",
         "/vol/d/....", "/home/u/w/a.trashinfo", "/vol/d/.trashinfo", "/home/u/w/c++/x+y %2B", "/vol/d/a+b"]
DIRS = ["/", "/home/u/w", "/home/u/w/sub", "/home/u", "/vol", "/vol/d", "/vol2", "/data"]
PATTERNS = ["a", "b", "*", "a*", "?", "[ab]", "/home/u/w/*", "/vol/*", "/*/a", "c d", "*c", "zzz",
            "/vol/d/a", "A", "...", ".*", "*.trashinfo", "*+*", "a b"]


def examples(tier):
    return 1500 if tier == "quick" else 30000


OP = st.one_of(
    st.tuples(st.just("put"), st.integers(0, len(SLOTS) - 1), st.sampled_from(["abs", "rel", "slash"]),
              st.sampled_from(["file", "file", "tree", "link"])),
    st.tuples(st.just("put"), st.integers(0, len(SLOTS) - 1), st.sampled_from(["abs", "rel"]),
              st.sampled_from(["file", "tree"])),
    st.tuples(st.just("put"), st.integers(0, len(SLOTS) - 1), st.sampled_from(["abs", "rel"]),
              st.sampled_from(["file", "tree"])),
    st.tuples(st.just("put"), st.sampled_from([0, 5, 8]), st.just("abs"), st.just("file")),
    st.tuples(st.just("restore"), st.integers(0, len(DIRS) - 1), st.integers(0, 7),
              st.sampled_from([None, "date", "path", "none"])),
    # several entries chosen in one answer: ranges, lists, both, with blanks; indices may have two digits
    st.tuples(st.just("restore"), st.sampled_from([0, 0, 1, 5]), st.integers(0, 13),
              st.sampled_from([None, "date", "path", "none"]),
              st.sampled_from(["range", "range", "list", "range_list", "spaced", "rev_list"]),
              st.integers(1, 6)),
    # one invocation trashing every free slot at once (same DeletionDate, many entries)
    st.tuples(st.just("bulk"), st.sampled_from(["file", "tree"])),
    st.tuples(st.just("bulk"), st.just("file")),
    st.tuples(st.just("restore"), st.just(0), st.integers(7, 12), st.sampled_from([None, "path"]),
              st.sampled_from(["range", "range_list", "spaced"]), st.integers(1, 3)),
    st.tuples(st.just("rm"), st.sampled_from(PATTERNS)),
    st.tuples(st.just("empty"), st.sampled_from([None, None, 0, 1, 2, 30])),
    st.tuples(st.just("clock"), st.sampled_from([86400, 86400 * 2, 86400 * 31, 3600])),
    st.tuples(st.just("recreate"), st.integers(0, len(SLOTS) - 1), st.sampled_from(["file", "tree"])),
    st.tuples(st.just("mk_top"), st.sampled_from(["/vol", "/vol2", "/"]), st.sampled_from([0o1777, 0o1777, 0o777])),
)


@st.composite
def strategy_(draw, tier):
    return {"ops": [list(o) for o in draw(st.lists(OP, min_size=6, max_size=30))],
            "top": draw(st.sampled_from(["absent", "sticky", "nonsticky"])),
            "top2": draw(st.sampled_from(["absent", "sticky"])),
            "uid": draw(st.sampled_from([1000, 0])),
            # /vol/.Trash-$uid is a symlink to a directory of the same volume (a relocated trash folder):
            # trash-put uses it, so the readers must see it too
            "alt_link": draw(st.integers(0, 5)) == 0,
            "homevol": draw(st.booleans())}


def strategy(tier):
    return strategy_(tier)


STORE = "/vol/.trash-store"


def disk_bag(snap, uid):
    """own scan of all trash dirs: sorted list of (abs path, date, payload digest)"""
    out = []
    tdirs = []
    for td in sorted(oracle.trash_dirs_in(snap), key=lambda t: t.count("/")):
        if not any(td.startswith(t + "/files/") for t in tdirs):
            tdirs.append(td)
    for td in tdirs:
        base = None
        if td.endswith("/.Trash-%d" % uid):
            base = td[:-len("/.Trash-%d" % uid)] or "/"
        elif td.endswith("/.Trash/%d" % uid):
            base = td[:-len("/.Trash/%d" % uid)] or "/"
        elif td == STORE:
            base = "/vol"
        ents = oracle.scan_trash(snap, td, sandbox.read_bytes)
        for nm, e in ents.items():
            if e["info"] is None or e["path"] is None:
                out.append(("<orphan %s>" % nm, None, None))
                continue
            p = fsdec(e["path"])
            if not p.startswith("/"):
                p = (base or "/").rstrip("/") + "/" + p
            dg = repr(sorted(subtree(snap, e["payload"], mtime=False).items())) if e["payload"] else None
            out.append((p, e["date"].decode() if e["date"] else None, dg))
    return sorted(out, key=repr), tdirs


def run_case(case):
    out = Outcome()
    uid = case["uid"]
    vols = ["/vol", "/vol2"] + (["/home"] if case["homevol"] else [])
    nodes = [{"p": d, "t": "d"} for d in DIRS if d != "/"]
    nodes += gen.topdir_nodes("/vol", uid, case["top"], "absent")
    nodes += gen.topdir_nodes("/vol2", uid, case["top2"], "absent")
    if case.get("alt_link"):
        nodes += [{"p": STORE, "t": "d", "m": 0o700},
                  {"p": "/vol/.Trash-%d" % uid, "t": "l", "to": ".trash-store"}]
    spec = {"vols": vols, "nodes": nodes, "env": {"HOME": "/home/u"}, "uid": uid, "cwd": "/"}
    sandbox.build_world(spec)
    clock = [86400 * 366]
    bag = []  # list of dict(path, date, digest)
    counter = [0]
    kinds = []
    tags = {}
    used_tdirs = set()
    puts = removals = 0
    put_after_removal = False

    def run(script, args, **kw):
        clock[0] += 61
        s = dict(spec, now=gen.date_str(clock[0]))
        return runner.run(s, script, args, **kw)

    def create(slot, kind):
        import os
        p = sandbox.wp(SLOTS[slot])
        if os.path.lexists(p):
            return False
        os.makedirs(os.path.dirname(p), exist_ok=True)
        counter[0] += 1
        if kind == "file":
            with open(p, "w") as f:
                f.write("content %d" % counter[0])
        elif kind == "tree":
            os.makedirs(p + "/in")
            with open(p + "/in/f", "w") as f:
                f.write("tree %d" % counter[0])
        else:
            os.symlink("target-%d" % counter[0], p)
        return True

    def check(step, op):
        snap = sandbox.snapshot()
        r = run("trash-list", [])
        want = sorted("%s %s" % (b["date"].replace("T", " "), b["path"]) for b in bag)
        # robust to newlines in names: the whole stdout must be a permutation of the records
        text = r.out
        got_ok = True
        rest = text
        for rec in sorted(want, key=len, reverse=True):
            i = rest.find(rec + "\n")
            if i < 0:
                got_ok = False
                break
            rest = rest[:i] + rest[i + len(rec) + 1:]
        if not got_ok or rest.strip() != "" or r.code != 0:
            out.fail("list_mismatch", "after step %d %s: trash-list printed %r, the bag holds %r "
                     "(exit %d, stderr %r)" % (step, op, text[:400], want, r.code, r.err[-200:]),
                     op=op[0])
            return False
        disk, tdirs = disk_bag(snap, uid)
        used_tdirs.update(tdirs)
        model = sorted(((b["path"], b["date"], b["digest"]) for b in bag), key=repr)
        if disk != model:
            out.fail("disk_mismatch", "after step %d %s: pairs on disk %r != bag %r" % (
                step, op, [d[:2] for d in disk], [m[:2] for m in model]), op=op[0])
            return False
        return True

    for step, op in enumerate(case["ops"]):
        k = op[0]
        if k == "put":
            slot, spelling, kind = op[1], op[2], op[3]
            create(slot, kind)
            p = SLOTS[slot]
            snap = sandbox.snapshot()
            dg = repr(sorted(subtree(snap, p, mtime=False).items()))
            arg, cwd = p, "/"
            if spelling == "rel":
                cwd, arg = p.rsplit("/", 1)[0], "./" + p.rsplit("/", 1)[1]
            elif spelling == "slash" and snap[p].t == "d":
                arg = p + "//"
            r = run("trash-put", ["--", arg], cwd=cwd)
            if r.code == 0:
                bag.append(dict(path=p, date=gen.date_str(clock[0]), digest=dg))
                puts += 1
                if removals:
                    put_after_removal = True
            else:
                out.fail("put_failed", "step %d: trash-put %r failed: %r" % (step, arg, r.err[-300:]), op="put")
                break
        elif k == "bulk":
            made = [i for i in range(len(SLOTS)) if create(i, op[1])]
            if made:
                snap = sandbox.snapshot()
                r = run("trash-put", ["--"] + [SLOTS[i] for i in made])
                if r.code != 0:
                    out.fail("put_failed", "step %d: trash-put of %d entries failed: %r" % (
                        step, len(made), r.err[-300:]), op="put")
                    break
                for i in made:
                    bag.append(dict(path=SLOTS[i], date=gen.date_str(clock[0]),
                                    digest=repr(sorted(subtree(snap, SLOTS[i], mtime=False).items()))))
                puts += len(made)
                if removals:
                    put_after_removal = True
        elif k == "recreate":
            create(op[1], op[2])
        elif k == "mk_top":
            # the administrator creates (or fixes / breaks) $topdir/.Trash while entries already
            # live in $topdir/.Trash-$uid: from now on both directories of the volume are in use
            import os
            tp = sandbox.wp(op[1].rstrip("/") + "/.Trash")
            if not os.path.lexists(tp):
                os.mkdir(tp)
            if os.path.isdir(tp) and not os.path.islink(tp):
                has_uid_dir = os.path.isdir(tp + "/%d" % uid)
                if not (has_uid_dir and op[2] == 0o777):   # never hide already trashed entries
                    os.chmod(tp, op[2])
        elif k == "clock":
            clock[0] += op[1]
        elif k == "rm":
            pat = op[1]
            run("trash-rm", [pat])
            keep = []
            for b in bag:
                subj = b["path"] if pat.startswith("/") else b["path"].rsplit("/", 1)[1]
                if oracle.glob_match(pat, subj):
                    removals += 1
                else:
                    keep.append(b)
            bag[:] = keep
        elif k == "empty":
            days = op[1]
            if days is None:
                run("trash-empty", [])
                removals += len(bag)
                bag[:] = []
            else:
                clock[0] += 61
                now = clock[0]
                runner.run(dict(spec, now=gen.date_str(now)), "trash-empty", [str(days)],
                           env={"TRASH_DATE": gen.date_str(now)})
                base = gen.date_str(0)
                keep = []
                for b in bag:
                    import datetime
                    secs = int((datetime.datetime.strptime(b["date"], "%Y-%m-%dT%H:%M:%S") -
                                datetime.datetime(2000, 1, 1)).total_seconds())
                    if secs < now - days * 86400:
                        removals += 1
                    else:
                        keep.append(b)
                bag[:] = keep
        elif k == "restore":
            d = DIRS[op[1]]
            sort = ["--sort", op[3]] if op[3] else []
            snap = sandbox.snapshot()
            if d not in snap:
                continue
            scope = [b for b in bag if d == "/" or b["path"] == d or b["path"].startswith(d + "/")]
            r0 = run("trash-restore", sort, cwd=d, stdin="")
            if not scope:
                kinds.append("restore0")
                if not check(step, op):
                    break
                continue
            idx = op[2] % len(scope)

            def at(i):
                """which element is printed at index i?"""
                found = None
                for b in scope:
                    rec = "%4d %s %s\n" % (i, b["date"].replace("T", " "), b["path"])
                    if rec in r0.out:
                        found = b
                return found
            target = at(idx)
            if target is None:
                out.fail("restore_listing", "step %d: cannot find index %d among the records of "
                         "the bag in %r (stderr %r)" % (step, idx, r0.out[:300], r0.err[-200:]), op="restore")
                break
            if len(op) > 4:
                # an answer naming several indices; used when every chosen entry is restorable
                # (free, pairwise different destinations), else the single index is answered
                hi = min(len(scope) - 1, idx + op[5])
                form = op[4]
                extra = hi + 1 if hi + 1 < len(scope) else None
                if form == "list":
                    sel, reply = [idx, hi], "%d,%d" % (idx, hi)
                elif form == "rev_list":
                    sel, reply = [hi, idx], "%d,%d" % (hi, idx)
                elif form == "range_list" and extra is not None:
                    sel, reply = list(range(idx, hi + 1)) + [extra], "%d-%d,%d" % (idx, hi, extra)
                elif form == "spaced":
                    sel, reply = list(range(idx, hi + 1)), " %d - %d " % (idx, hi)
                else:
                    sel, reply = list(range(idx, hi + 1)), "%d-%d" % (idx, hi)
                chosen = [at(i) for i in sel]
                paths = [b["path"] for b in chosen if b is not None]
                if hi > idx and None not in chosen and len(set(paths)) == len(paths) and \
                        not any(q in snap for q in paths):
                    r1 = run("trash-restore", sort, cwd=d, stdin=reply + "\n")
                    after = sandbox.snapshot()
                    bad = False
                    for b in chosen:
                        bag.remove(b)
                        removals += 1
                        if repr(sorted(subtree(after, b["path"], mtime=False).items())) != b["digest"]:
                            out.fail("restore_content", "step %d: answer %r selects index of %s, which is "
                                     "not back in place as trashed (exit %d, stderr %r)" % (
                                         step, reply, b["path"], r1.code, r1.err[-200:]), op="restore")
                            bad = True
                    if bad:
                        break
                    kinds.append("restore_multi%s" % ("_2digit" if hi >= 10 else ""))
                    if not check(step, op):
                        break
                    continue
            blocked = target["path"] in snap
            r1 = run("trash-restore", sort, cwd=d, stdin="%d\n" % idx)
            if not blocked:
                bag.remove(target)
                removals += 1
                after = sandbox.snapshot()
                if repr(sorted(subtree(after, target["path"], mtime=False).items())) != target["digest"]:
                    out.fail("restore_content", "step %d: restored %s differs from what was trashed "
                             "(exit %d, stderr %r)" % (step, target["path"], r1.code, r1.err[-200:]),
                             op="restore")
                    break
        kinds.append(k)
        if not check(step, op):
            break
    out.classes += ["op:" + k for k in kinds] + ["top:" + case["top"], "len:%d" % (len(kinds) // 5 * 5)]
    if puts >= 3 and len(used_tdirs) >= 2 and put_after_removal:
        out.key = kinds
        out.sample = {"ops": case["ops"], "final_bag": [[b["path"], b["date"]] for b in bag],
                      "trash_dirs": sorted(used_tdirs)}
    return out
