"""C20 -- all commands read a trash directory the same way (and the way the spec says)."""
import re

from hypothesis import strategies as st

from .. import gen, oracle, runner, sandbox
from ..driver import Outcome
from ..sandbox import fsdec, fsenc, subtree

ID = "C20"
LEVEL = "exploration"
RULE = ("Four-way differential: Hypothesis generates the TEXT of a .trashinfo from a grammar "
        "(header present / missing / repeated, Path absolute or relative with percent-escapes of "
        "arbitrary bytes, duplicate Path / DeletionDate keys, unknown keys and sections, blank "
        "lines, CRLF, trailing blanks, key order) and places it with a payload in one kind of "
        "trash dir (home on / or on its own volume, $topdir/.Trash/$uid, $topdir/.Trash-$uid, "
        "--trash-dir). In identical fresh worlds it observes: the record printed by trash-list; "
        "the record listed by trash-restore and the place where the payload lands; whether "
        "trash-rm <escaped listed path> removes it and a one-character variation does not; "
        "whether trash-empty DAYS keeps it with TRASH_DATE = date + DAYS and purges it one second "
        "later. Oracle: all four agree on (absolute location, date); for clean inputs they also "
        "equal the spec reading by an own parser (first Path / DeletionDate line, unknown lines "
        "ignored, $topdir base for relative paths). Non-trivial: the text deviates from the "
        "canonical 3-line form; distinct by (deviation classes, trash-dir kind, path form).")
ASSUMPTIONS = ["for percent-escapes that are not valid UTF-8, CR / trailing blanks in values only "
               "the agreement between the commands is required, not a particular reading"]

TK = ["home_root", "home_vol", "top_sticky", "top_alt", "trash_dir"]


def examples(tier):
    return 5000 if tier == "quick" else 100000


@st.composite
def strategy_(draw, tier):
    name = draw(gen.names(long_ok=False))
    esc = draw(st.sampled_from(["std", "std", "all", "lower", "none", "raw_bytes"]))
    return {"tk": draw(st.sampled_from(TK)),
            "form": draw(st.sampled_from(["abs", "abs", "rel", "rel_dot", "abs_dslash"])),
            "name": name, "esc": esc,
            "header": draw(st.sampled_from(["ok", "ok", "ok", "missing", "twice", "lower", "late"])),
            "dup_path": draw(st.sampled_from([None, None, None, "after", "before_other"])),
            "dup_date": draw(st.sampled_from([None, None, None, "after_newer", "after_older", "after_bad"])),
            "date": draw(st.sampled_from(["ok", "ok", "ok", "ok", "missing", "bad", "space_t"])),
            "extra": draw(st.lists(st.sampled_from(["Foo=bar", "[Other Section]", "", "   ", "#comment",
                                                    "path=/lower/case", "Path", "=x", "Pathx=/y",
                                                    "DeletionDate", "deletiondate=2001-01-01T00:00:00",
                                                    "X-Thing=%41"]), max_size=3)),
            "eol": draw(st.sampled_from(["lf", "lf", "lf", "crlf", "no_final", "trailing_space"])),
            "order": draw(st.sampled_from(["path_first", "path_first", "date_first"])),
            "secs": draw(st.integers(0, 10 ** 9)), "days": draw(st.sampled_from([0, 1, 7, 400])),
            "uid": draw(st.sampled_from([1000, 0])), "kind": draw(st.sampled_from(["file", "tree"])),
            # well-formed neighbours in the same trash dir (state kept between entries must not
            # leak into the reading of the entry under test) and a readdir permutation
            "neighbours": draw(st.sampled_from([0, 0, 1, 2, 3])), "perm": draw(st.integers(0, 50)),
            # spelling of the --trash-dir argument (only for the trash_dir kind)
            "td_spelling": draw(st.sampled_from(["abs", "abs", "slash", "rel", "dotrel", "dslash"])),
            # file-system type the mount table reports for /vol (some commands filter the table by type)
            "fstype": draw(st.sampled_from(["ext4", "ext4", "tmpfs", "overlay", "zfs", "fuse.sshfs"]))}


def strategy(tier):
    return strategy_(tier)


def glob_escape(s):
    return "".join("[" + ch + "]" if ch in "*?[" else ch for ch in s)


def make(case):
    uid = case["uid"]
    tk = case["tk"]
    vols = ["/vol"] + (["/home"] if tk == "home_vol" else [])
    tw = gen.TrashWorld(vols, "/home/u", uid)
    if tk.startswith("home"):
        tdir, base, loc_root = tw.home_trash(), None, "/home/u"
        rel_base_spec = None
    elif tk == "top_sticky":
        tdir, base, loc_root = tw.top_trash("/vol", "sticky"), "/vol", "/vol"
    elif tk == "top_alt":
        tdir, base, loc_root = tw.top_trash("/vol", "alt"), "/vol", "/vol"
    else:
        tdir, base, loc_root = "/vol/custom-trash", "/vol", "/vol"
    orig = loc_root + "/w/sub/" + case["name"]
    form = case["form"]
    if form == "abs":
        pv = fsenc(orig)
    elif form == "abs_dslash":
        pv = fsenc(loc_root + "//w/sub/" + case["name"])
    elif form == "rel":
        pv = fsenc(orig[len(loc_root) + 1:])
    else:
        pv = fsenc("./" + orig[len(loc_root) + 1:])
    e = case["esc"]
    if e == "std":
        val = oracle.pct_encode(pv)
    elif e == "all":
        val = b"".join(b"%%%02X" % c if c != 0x2f else b"/" for c in pv)
    elif e == "lower":
        val = oracle.pct_encode(pv).lower() if pv == pv.lower() else oracle.pct_encode(pv)
    elif e == "none":
        val = pv.replace(b"\n", b"%0A").replace(b"\r", b"%0D")
    else:
        val = oracle.pct_encode(pv) + b"%FF%FE"
    date = gen.date_str(case["secs"])
    dline = {"ok": b"DeletionDate=" + date.encode(), "missing": None,
             "bad": b"DeletionDate=not-a-date", "space_t": b"DeletionDate=" + date.replace("T", " ").encode()}[case["date"]]
    pline = b"Path=" + val
    body = []
    if case["dup_path"] == "before_other":
        body.append(pline)
        body.append(b"Path=/some/other/place")
        pline = None
    first = [pline, dline] if case["order"] == "path_first" else [dline, pline]
    body += [x for x in first if x is not None]
    if case["dup_path"] == "after":
        body.append(b"Path=/some/other/place")
    if case["dup_date"] and dline is not None:
        body.append({"after_newer": b"DeletionDate=2037-01-01T00:00:00",
                     "after_older": b"DeletionDate=1980-01-01T00:00:00",
                     "after_bad": b"DeletionDate=garbage"}[case["dup_date"]])
    for i, x in enumerate(case["extra"]):
        body.insert(min(i * 2, len(body)), x.encode())
    h = case["header"]
    lines = {"ok": [b"[Trash Info]"], "missing": [], "twice": [b"[Trash Info]", b"[Trash Info]"],
             "lower": [b"[trash info]"], "late": []}[h] + body + ([b"[Trash Info]"] if h == "late" else [])
    eol = case["eol"]
    if eol == "crlf":
        text = b"\r\n".join(lines) + b"\r\n"
    elif eol == "no_final":
        text = b"\n".join(lines)
    elif eol == "trailing_space":
        text = b" \n".join(lines) + b" \n"
    else:
        text = b"\n".join(lines) + b"\n"
    neigh = []
    for i in range(case.get("neighbours", 0)):
        nd = "20%02d-0%d-1%dT0%d:0%d:0%d" % (30 + i, i + 1, i, i, i + 1, i + 2)
        neigh.append(tw.add(tdir, base, loc_root + "/w/neighbour-%d" % i, nd, kind="file",
                            name=["aaa-n0", "zzz-n1", "m-n2"][i], content="neighbour %d" % i))
    ent = tw.add(tdir, base, orig, date, kind=case["kind"], info_bytes=text, name="entry", content="the payload")
    ent["neigh"] = neigh
    tw.nodes.append({"p": loc_root + "/w", "t": "d"})
    return tw, ent, text, loc_root, tdir


def spec_reading(text, base_for_relative):
    """own reader: first Path= line decoded, joined with the base if relative; first DeletionDate"""
    pv, dv, _ = oracle.parse_info(text)
    path = None
    if pv is not None:
        dec = oracle.pct_decode(pv)
        path = dec if dec.startswith(b"/") else (base_for_relative.rstrip("/").encode() + b"/" + dec)
    date = dv.decode("utf-8", "replace").replace("T", " ") if oracle.date_ok(dv) else None
    return path, date


def run_case(case):
    out = Outcome()
    tw, ent, text, loc_root, tdir = make(case)
    tk = case["tk"]
    sp = case.get("td_spelling", "abs")
    td_arg = {"abs": tdir, "slash": tdir + "/", "rel": tdir.lstrip("/"), "dotrel": "./" + tdir.lstrip("/"),
              "dslash": tdir.replace("/custom", "//custom")}[sp]   # (cwd is '/')
    td_opt = ["--trash-dir", td_arg] if tk == "trash_dir" else []
    spec = tw.spec(cwd="/")
    if tk == "trash_dir":
        spec["fstype"] = {"/vol": case.get("fstype", "ext4")}
    dev = sorted(set([case["header"], case["eol"], case["esc"], case["form"], case["date"]] +
                     ["dup_path:%s" % case["dup_path"], "dup_date:%s" % case["dup_date"]] +
                     (["extra"] if case["extra"] else [])) -
                 {"ok", "lf", "std", "abs", "dup_path:None", "dup_date:None"})
    tags = dict(tk=tk, form=case["form"], relative_in_home=(tk == "home_vol" and case["form"].startswith("rel")))
    out.classes += ["tk:" + tk, "form:" + case["form"], "neighbours:%d" % case.get("neighbours", 0)] + \
        ["dev:" + d for d in dev]
    # ---- list
    sandbox.build_world(spec)
    before = sandbox.snapshot()
    plan = {"perm_seed": case.get("perm", 0)}
    rl = runner.run(spec, "trash-list", td_opt, plan=plan)
    lout = rl.out
    for nb in ent["neigh"]:
        line = gen.list_line(nb) + "\n"
        if line not in lout:
            out.fail("neighbour_not_listed", "well-formed neighbour %r missing from trash-list: %r" % (
                line, rl.out[:300]), **tags)
        lout = lout.replace(line, "", 1)
    m = re.match(r"^(\S{10} \S{8}) (.*)\n\Z", lout, re.S)
    if not m:
        l_path = l_date = None
        if lout.strip():
            out.fail("list_unparsable", "trash-list printed %r (stderr %r)" % (lout[:200], rl.err[-200:]), **tags)
    else:
        l_date, l_path = m.group(1), m.group(2)
        if "?" in l_date:
            l_date = None
    # ---- restore
    r0 = runner.run(spec, "trash-restore", td_opt + ["/"], stdin="", plan=plan)
    listing = r0.out.split("What file to restore")[0]
    for nb in ent["neigh"]:
        listing = re.sub(r"(?m)^ *\d+ " + re.escape(gen.list_line(nb)) + "\n", "", listing, count=1)
    m0 = re.match(r"^ *(\d+) (None|\S{10} \S{8}) (.*)\n\Z", listing, re.S)
    idx = m0.group(1) if m0 else "0"
    rr = runner.run(spec, "trash-restore", td_opt + ["/"], stdin=idx + "\n", plan=plan)
    after = sandbox.snapshot()
    m = None
    if m0:
        class _M(object):
            def group(self, i):
                return m0.group(i + 1)
        m = _M()
    r_path = r_date = landed = None
    if m:
        r_date, r_path = (None if m.group(1) == "None" else m.group(1)), m.group(2)
        sig0 = subtree(before, ent["payload"])
        new = [p for p in after if p not in before and subtree(after, p) == sig0]
        landed = new[0] if new else None
    if (l_path is None) != (r_path is None):
        out.fail("listed_by_one_only", "trash-list shows %r, trash-restore shows %r for the same "
                 ".trashinfo %r" % (l_path, r_path, text), **tags)
    if l_path is not None and r_path is not None:
        if l_path != r_path:
            out.fail("path_list_vs_restore", "trash-list says %r, trash-restore says %r (info %r)" % (
                l_path, r_path, text), **tags)
        if l_date != r_date:
            out.fail("date_list_vs_restore", "trash-list says %r, trash-restore says %r (info %r)" % (
                l_date, r_date, text), **tags)
        if r_path.endswith("/") or r_path.endswith("/.") or r_path.endswith("/.."):
            pass  # the recorded location denotes a directory: where the payload lands is moot
        elif landed is None or landed != r_path and fsenc(landed) != fsenc(r_path):
            import posixpath
            if landed is None and posixpath.normpath(r_path) != r_path:
                pass  # a location with '.' / '..' components may be impossible to create; refusing is fine
            elif landed is None or posixpath.normpath(landed) != posixpath.normpath(r_path):
                out.fail("restore_place", "trash-restore listed %r but the payload landed at %r "
                         "(exit %d, stderr %r)" % (r_path, landed, rr.code, rr.err[-200:]), **tags)
    if l_path is not None and l_path.startswith("/") and tk != "trash_dir":
        # ---- rm (no --trash-dir option exists for trash-rm)
        sandbox.build_world(spec)
        runner.run(spec, "trash-rm", [glob_escape(l_path) + "x"])
        mid = sandbox.snapshot()
        if ent["info"] not in mid:
            out.fail("rm_variation_matched", "trash-rm of %r + 'x' removed the entry" % l_path, **tags)
        runner.run(spec, "trash-rm", [glob_escape(l_path)])
        fin = sandbox.snapshot()
        if ent["info"] in fin:
            out.fail("path_list_vs_rm", "trash-rm %r (the path trash-list prints) does not remove "
                     "the entry (info %r)" % (glob_escape(l_path), text), **tags)
    # ---- empty DAYS
    if l_path is not None:
        days = case["days"]
        if l_date is not None:
            import datetime
            d0 = datetime.datetime.strptime(l_date, "%Y-%m-%d %H:%M:%S")
            for delta, expect_kept in ((0, True), (1, False)):
                now = (d0 + datetime.timedelta(days=days, seconds=delta)).strftime("%Y-%m-%dT%H:%M:%S")
                sandbox.build_world(spec)
                runner.run(spec, "trash-empty", td_opt + [str(days)], env={"TRASH_DATE": now}, plan=plan)
                kept = ent["info"] in sandbox.snapshot()
                if kept != expect_kept:
                    out.fail("date_list_vs_empty", "trash-list date %s, `trash-empty %d` at %s %s the "
                             "entry (info %r)" % (l_date, days, now, "kept" if kept else "purged", text), **tags)
        else:
            sandbox.build_world(spec)
            runner.run(spec, "trash-empty", td_opt + ["0"], env={"TRASH_DATE": "2099-01-01T00:00:00"}, plan=plan)
            if ent["info"] not in sandbox.snapshot():
                out.fail("date_list_vs_empty", "no valid date for list/restore but trash-empty 0 "
                         "purged the entry (info %r)" % text, **tags)
    # ---- the spec reading, for clean inputs
    clean = case["esc"] != "raw_bytes" and case["eol"] in ("lf", "no_final") and \
        "nonutf8" not in gen.name_class(case["name"])
    if clean and l_path is not None:
        base = loc_root if not tk.startswith("home") else ("/" if tk == "home_root" else None)
        if base is not None or case["form"].startswith("abs"):
            sp, sd = spec_reading(text, base or "/")
            try:
                sp is None or sp.decode("utf-8")
                decodable = True
            except UnicodeDecodeError:
                decodable = False   # (un-escaped text such as '%aa' decodes to invalid UTF-8)
            if sp is not None and decodable and fsenc(l_path) != sp:
                out.fail("spec_path", "commands read %r, the spec reading is %r (info %r)" % (
                    l_path, sp, text), **tags)
            if sd != l_date:
                out.fail("spec_date", "commands read %r, the spec reading is %r (info %r)" % (
                    l_date, sd, text), **tags)
    if dev:
        out.key = [dev, tk, case["form"], min(case.get("neighbours", 0), 2),
                   case.get("td_spelling", "abs") if tk == "trash_dir" else "-"]
        out.sample = {"trash_dir": tdir, "info": text.decode("latin-1"), "listed": [l_date, l_path],
                      "restored_to": landed}
    return out
