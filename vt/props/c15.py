"""C15 -- killing restore, empty or rm at any instant never strands a payload without info."""
from hypothesis import strategies as st

from .. import gen, oracle, runner, sandbox
from ..driver import Outcome
from ..sandbox import subtree

ID = "C15"
LEVEL = "fault_enumeration"
RULE = ("Hypothesis generates harness-written trash contents (files, deep directory trees, "
        "symlinks, 1-5 entries over home and $topdir trash dirs) and a command: trash-restore "
        "(single / multiple indices; same-volume rename or cross-volume copy + delete), "
        "trash-empty, trash-empty DAYS, trash-rm PATTERN. A fault-free interposed run records "
        "the N mutating operations; the command is then killed (os._exit) before operation k for EVERY k "
        "in 1..N and interrupted like Ctrl-C (KeyboardInterrupt right before / after operation k). Oracle on each post-crash disk: every payload under files/ that had a "
        ".trashinfo still has it; an entry being restored is complete in the trash or complete "
        "at its destination; untouched entries are intact. Then the SAME empty / rm command is "
        "re-run and must reach the fault-free final state; after a killed restore, trash-empty "
        "must leave every trash dir empty. Non-trivial: crash strictly inside the run; distinct "
        "by (command, entry kinds, kind of operation the crash precedes, ordinal bucket).")
ASSUMPTIONS = ["crash points are boundaries between Python-level os.* operations (SIGKILL model)"]

CMDS = ["restore1", "restore_multi", "restore_xdev", "empty", "empty_days", "rm"]


def examples(tier):
    return 500 if tier == "quick" else 12000


@st.composite
def strategy_(draw, tier):
    n = draw(st.integers(1, 5))
    return {"cmd": draw(st.sampled_from(CMDS)),
            "ents": [dict(kind=draw(st.sampled_from(["file", "file", "tree", "tree", "link", "empty", "fifo"])),
                          where=draw(st.sampled_from(["home", "home", "top_alt", "top_sticky"])),
                          old=draw(st.booleans()),
                          # same base name as the first entry, trashed from another directory: the
                          # payload is then stored under NAME_<i> (info name != base name of Path)
                          dup=draw(st.integers(0, 3)) == 0,
                          name=draw(st.one_of(gen.names(simple=True), gen.names(simple=True),
                                              st.sampled_from(["x.trashinfo", "a.trashinfo.d", "..."]))))
                     for _ in range(n)],
            "uid": draw(st.sampled_from([1000, 0])), "big": draw(st.booleans())}


def strategy(tier):
    return strategy_(tier)


def build(case):
    tw = gen.TrashWorld(["/vol"], "/home/u", case["uid"])
    es = []
    cmd = case["cmd"]
    for i, e in enumerate(case["ents"]):
        where = e["where"]
        if cmd == "restore_xdev":
            # entry stored in the HOME trash whose original location is on /vol: restoring copies
            tdir, base, orig = tw.home_trash(), None, "/vol/w/x%d-%s" % (i, e["name"])
        elif where == "home":
            tdir, base, orig = tw.home_trash(), None, "/home/u/w/h%d-%s" % (i, e["name"])
        else:
            tdir = tw.top_trash("/vol", "sticky" if where == "top_sticky" else "alt")
            base, orig = "/vol", "/vol/w/v%d-%s" % (i, e["name"])
        stored = None
        if e.get("dup") and i > 0 and es and es[0]["tdir"] == tdir:
            first = es[0]["orig"].rsplit("/", 1)
            orig = first[0] + "/other dir %d/" % i + first[1]
            stored = "%s_%d" % (first[1], i)
        es.append(tw.add(tdir, base, orig, "2001-01-01T00:00:00" if e["old"] else "2021-06-01T00:00:00",
                         kind=e["kind"], content=("payload %d " % i) * (4000 if case["big"] else 1),
                         link_to="/nowhere", **({"name": stored} if stored else {})))
    tw.nodes += [{"p": "/home/u/w", "t": "d"}, {"p": "/vol/w", "t": "d"}]
    return tw, es


def command(case, es):
    cmd = case["cmd"]
    env = {}
    if cmd in ("restore1", "restore_xdev"):
        return "trash-restore", ["/"], "0\n", env, [0]
    if cmd == "restore_multi":
        k = min(len(es), 3)
        return "trash-restore", ["--sort", "path", "/"], "0-%d\n" % (k - 1), env, list(range(k))
    if cmd == "empty":
        return "trash-empty", [], "", env, None
    if cmd == "empty_days":
        return "trash-empty", ["30"], "", {"TRASH_DATE": "2021-06-15T00:00:00"}, None
    return "trash-rm", ["*"], "", env, None


def trash_view(snap):
    return {p: sandbox.sig(n, n.t != "d") for p, n in snap.items() if "/files/" in p or "/info/" in p}


def run_case(case):
    out = Outcome()
    tw, es = build(case)
    spec = tw.spec(cwd="/", now="2021-06-15T00:00:00")
    script, args, stdin, env, sel = command(case, es)
    sandbox.build_world(spec)
    before = sandbox.snapshot()
    ref = runner.run(spec, script, args, stdin=stdin, env=env)
    final = sandbox.snapshot()
    n = ref.n_mut
    muts = [t for t in ref.trace if t[1]]
    kinds = "+".join(sorted(set(e["kind"] for e in case["ents"])))
    tags = dict(cmd=case["cmd"])
    out.classes += ["cmd:" + case["cmd"], "ops:%d" % (n // 10 * 10), "ref_exit:%d" % ref.code]
    had_info = {e["payload"]: e["info"] for e in es}
    kills = [("crash", k, None) for k in range(1, n + 1)] + \
        [("sigint", k, w) for k in range(1, n + 1) for w in ("before", "after")]
    for how, k, when in kills:
        sandbox.build_world(spec)
        if how == "crash":
            r = runner.run(spec, script, args, stdin=stdin, env=env, plan={"crash_at": k})
            if r.code != 137:
                out.fail("crash_not_delivered", "crash_at=%d exited %d" % (k, r.code), **tags)
                break
        else:
            r = runner.run(spec, script, args, stdin=stdin, env=env, plan={"interrupt": [k, when]})
        after = sandbox.snapshot()
        op = muts[k - 1][2]
        what = "%s %s op %d/%d (%s %s)" % (script, "killed before" if how == "crash" else
                                           "interrupted (SIGINT) " + when, k, n, op, muts[k - 1][3][:1])
        t = dict(tags, op=op, kill=how)
        for e in es:
            pay_there = e["payload"] in after
            if pay_there and e["info"] not in after:
                out.fail("payload_without_info", "%s: %s remains but %s is gone" % (
                    what, e["payload"], e["info"]), **t)
            s0 = subtree(before, e["payload"])
            in_trash = subtree(after, e["payload"]) == s0 and e["info"] in after
            at_dest = subtree(after, e["orig"]) == s0
            if script == "trash-restore":
                if not in_trash and not at_dest:
                    out.fail("entry_lost", "%s: %s is complete neither in the trash nor at %s" % (
                        what, e["name"], e["orig"]), **t)
        # ---- recovery
        if script == "trash-restore":
            runner.run(spec, "trash-empty", [])
            rec = sandbox.snapshot()
            left = [p for p in trash_view(rec)]
            if left:
                out.fail("not_purgeable", "%s: after the crash trash-empty leaves %s" % (what, left[:3]), **t)
        else:
            runner.run(spec, script, args, stdin=stdin, env=env)
            rec = sandbox.snapshot()
            if trash_view(rec) != trash_view(final):
                d = sorted(set(trash_view(rec)) ^ set(trash_view(final)))
                out.fail("rerun_incomplete", "%s: re-running the command does not reach the "
                         "fault-free final state; differing: %s" % (what, d[:4]), **t)
        out.classes.append(("crash_before:" if how == "crash" else "sigint_%s:" % when) + op)
        out.keys.append([case["cmd"], kinds, how if how == "crash" else "sigint_" + when, op,
                         min(k * 4 // max(n, 1), 3)])
        if out.fails:
            break
    # ---- `trash-empty -v` writing to a pipe whose reader has gone away (| head -1): the output
    # error may surface at any flush; killed at every position as well
    if not out.fails and case["cmd"] in ("empty", "empty_days") and case.get("pipe", True):
        buf = [48, 120, 300][len(es) % 3]
        for k in range(1, n + 2):
            sandbox.build_world(spec)
            r = runner.run(spec, script, ["-v"] + args, stdin=stdin, env=env, closed_stdout=True,
                           plan={"crash_at": k, "stdout_buffer": buf})
            after = sandbox.snapshot()
            what = "%s -v with a closed stdout pipe (buffer %d), killed before op %d (exit %d)" % (
                script, buf, k, r.code)
            t = dict(tags, kill="epipe")
            for e in es:
                if e["payload"] in after and e["info"] not in after:
                    out.fail("payload_without_info", "%s: %s remains but %s is gone" % (
                        what, e["payload"], e["info"]), **t)
            runner.run(spec, script, args, stdin=stdin, env=env)
            rec = sandbox.snapshot()
            if trash_view(rec) != trash_view(final):
                d = sorted(set(trash_view(rec)) ^ set(trash_view(final)))
                out.fail("rerun_incomplete", "%s: re-running the command does not reach the "
                         "fault-free final state; differing: %s" % (what, d[:4]), **t)
            out.classes.append("epipe:exit%d" % r.code)
            out.keys.append([case["cmd"], kinds, "epipe", buf, min(k * 4 // max(n, 1), 3)])
            if out.fails or r.code != 137:
                break     # (the command ended by itself before reaching operation k)
    out.sample = {"cmd": [script] + args, "entries": [[e["kind"], e["orig"]] for e in es],
                  "mutating_ops": n, "ops": [[t[2], t[3][0] if t[3] else None] for t in muts][:30]}
    return out
