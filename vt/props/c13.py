"""C13 -- trash-restore offers the right entries and restores exactly the indices chosen."""
import re

from hypothesis import strategies as st

from .. import gen, runner, sandbox
from ..driver import Outcome
from ..sandbox import subtree

ID = "C13"
LEVEL = "exploration"
RULE = ("Hypothesis generates 0-8 harness-written entries whose original locations stress the "
        "scope rule (the requested directory D itself, D/x, D/sub/y, the prefix siblings D+'bar' and "
        "D+'bar'/z, D's parent, other volumes, '/'), dates with ties, a requested directory (cwd or "
        "argument, also '/'), --sort {default,date,path,none} and a reply from a grammar (indices, "
        "a-b ranges, commas, blanks, signs, letters, empty parts, reversed / duplicate / huge "
        "ranges, empty reply; rarely a list of 340-520 entries with a reply denoting all of it). Oracle: listed multiset == entries with loc == D or under D + '/', "
        "numbered 0..n-1, date order non-decreasing / path order non-decreasing in (path, date); "
        "for replies in the plain grammar (\\d+ | \\d+-\\d+, comma separated, optional blanks): all "
        "in range => restored set == entries PRINTED at those indices (payload digests at their "
        "destinations, pairs gone, all others intact), any out of range => nothing restored and "
        "exit != 0; empty reply => nothing. Replies outside the plain grammar, duplicates and "
        "reversed ranges are only held to the no-loss frame. The reply parser is additionally "
        "driven directly with many generated replies per case. Non-trivial: >= 3 listed entries "
        "and a reply with >= 2 tokens; distinct by (sort, scope shape, reply shape, #listed).")
ASSUMPTIONS = ["(date, original location) pairs are unique within a case so that 'the entry "
               "printed at index i' is well defined"]


def examples(tier):
    return 10000 if tier == "quick" else 200000


TOK = st.one_of(
    st.integers(0, 9).map(str), st.integers(0, 9).map(str), st.integers(0, 12).map(str),
    st.tuples(st.integers(0, 9), st.integers(0, 9)).map(lambda t: "%d-%d" % (min(t), max(t))),
    st.tuples(st.integers(0, 9), st.integers(0, 9)).map(lambda t: "%d-%d" % t),
    st.tuples(st.integers(0, 9), st.integers(0, 9)).map(lambda t: " %d - %d " % (min(t), max(t))),
    st.integers(0, 9).map(lambda i: " %d " % i),
    st.sampled_from(["", " ", "-", "1-", "-1", "a", "1a", "+1", "0x1", "1_0", "１", "1-2-3", "--",
                     "99999999999999999999", "0-99999999", "1.0", "٣", "1 2", "-0", "00", "007",
                     "1e0", "\t2", "2\t", "1--2", "0--0", "2--1", "0--1", "-1-2", "1- -1"]))


@st.composite
def strategy_(draw, tier):
    tw = gen.draw_layout(draw, layouts=["flat", "homevol", "onevol", "nested"])
    tds = gen.draw_tdirs(draw, tw)
    base_dir = draw(st.sampled_from([tw.home + "/a/foo", "/data/foo", tw.home + "/a/foo"] +
                                    [v + "/a/foo" for v in tw.vols] +
                                    # names that Unicode normalisation would change
                                    [tw.home + "/a/cafe\u0301", "/data/\u212bngstrom", "/data/e\u0301\u0301 x"]))
    nm = draw(gen.names(long_ok=False))
    locs = [base_dir, base_dir + "/" + nm, base_dir + "/sub/y", base_dir + "/sub/" + nm,
            base_dir + "bar", base_dir + "bar/z", base_dir + " /z", base_dir + "/../foo2/x",
            base_dir.rsplit("/", 1)[0] + "/other", base_dir.rsplit("/", 1)[0], "/top",
            base_dir + "/x", base_dir + "/x1", base_dir + "/x 1", base_dir + "/X",
            # look-alikes of the requested directory itself: a trailing line feed / blank / dot
            base_dir + "\n", base_dir + "\n/in", base_dir + ".", base_dir + "\r"]
    locs = [l for l in locs if "/../" not in l]
    ents = []
    seen = set()
    for i in range(draw(st.integers(0, 8))):
        loc = draw(st.sampled_from(locs))
        date = draw(st.sampled_from([100, 100, 200, 300, 86400 * 365, 86400 * 3650, 5, 7]))
        if (loc, date) in seen:
            continue
        seen.add((loc, date))
        # place it in a trash dir that can legitimately hold it
        cands = [(t, b) for (t, b) in tds if b is None or loc.startswith(b.rstrip("/") + "/")]
        tdir, base = draw(st.sampled_from(cands))
        ents.append(dict(tdir=tdir, base=base, orig=loc, date=date,
                         kind=draw(st.sampled_from(["file", "file", "tree", "link"]))))
    req = draw(st.sampled_from(["cwd", "cwd", "arg", "arg_slash", "root_arg", "root_cwd", "parent_cwd",
                                "rel_arg"]))
    reply = ",".join(draw(st.lists(TOK, min_size=0, max_size=4)))
    if draw(st.integers(0, 9)) == 0:
        reply = ""
    fn_replies = [",".join(draw(st.lists(TOK, min_size=1, max_size=4))) for _ in range(6)]
    if draw(st.sampled_from([False] * 29 + [True])):
        # a LONG list and one reply that denotes all of it ("huge ranges" are part of the statement)
        nmany = draw(st.sampled_from([340, 400, 520]))
        ents = [dict(tdir=tds[0][0], base=tds[0][1], orig=base_dir + "/many/m%04d" % i, date=100 + i,
                     kind="file") for i in range(nmany)
                if tds[0][1] is None or base_dir.startswith(tds[0][1].rstrip("/") + "/")]
        reply = "0-%d" % (len(ents) - 1) if ents else reply
    return {"layout": tw.layout, "uid": tw.uid, "ents": ents, "dir": base_dir, "req": req,
            "sort": draw(st.sampled_from([None, "date", "path", "none"])), "reply": reply,
            "fn_replies": fn_replies, "fn_len": draw(st.integers(1, 12))}


def strategy(tier):
    return strategy_(tier)


_PLAIN = re.compile(r"^[ ]*(\d+)[ ]*(?:-[ ]*(\d+)[ ]*)?$", re.ASCII)


_NEG = re.compile(r"(^|-)\s*-\s*\d")


def has_negative_bound(reply):
    """some token has a bound written as a negative number ('-1', '1--2', '-1-2'): whatever
    the reading, a negative index is not within the list, so the reply must be rejected"""
    return any(_NEG.search(tok.strip()) for tok in reply.split(","))


def plain_indices(reply):
    """list of indices denoted by a reply in the plain grammar, else None.
    ('x', reason) entries mark tokens whose meaning the statement does not fix."""
    out = []
    for tok in reply.split(","):
        m = _PLAIN.match(tok)
        if not m:
            return None
        a = int(m.group(1))
        if m.group(2) is None:
            out.append(a)
        else:
            b = int(m.group(2))
            if b < a:
                return None  # reversed range: meaning not fixed
            if b - a > 100000:
                return "huge"
            out.extend(range(a, b + 1))
    return out


def run_case(case):
    out = Outcome()
    vols, home = gen.LAYOUTS[case["layout"]]
    tw = gen.TrashWorld(vols, home, case["uid"])
    D = case["dir"]
    tw.nodes.append({"p": D, "t": "d"})
    es = []
    for i, e in enumerate(case["ents"]):
        es.append(tw.add(e["tdir"], e["base"], e["orig"], gen.date_str(e["date"]), kind=e["kind"],
                         content="payload %d" % i, link_to="/nowhere"))
    # the directory D exists; entries located under it were trashed from it
    req = case["req"]
    cwd, arg, scope = D, [], D
    if req == "arg":
        cwd, arg = "/", [D]
    elif req == "arg_slash":
        cwd, arg = "/", [D + "/"]
    elif req == "root_arg":
        cwd, arg, scope = D, ["/"], "/"
    elif req == "root_cwd":
        cwd, arg, scope = "/", [], "/"
    elif req == "parent_cwd":
        cwd, scope = D.rsplit("/", 1)[0], D.rsplit("/", 1)[0]
    elif req == "rel_arg":
        cwd, arg = D.rsplit("/", 1)[0], [D.rsplit("/", 1)[1]]
    spec = tw.spec(cwd=cwd)
    sandbox.build_world(spec)
    before = sandbox.snapshot()
    sort = ["--sort", case["sort"]] if case["sort"] else []
    tags = dict(sort=case["sort"] or "default", req=req)
    r0 = runner.run(spec, "trash-restore", sort + arg, stdin="")
    if sandbox.snapshot() != before:
        out.fail("empty_reply_changed", "an empty reply changed the file system", **tags)
    want = [e for e in es if scope == "/" or e["orig"] == scope or e["orig"].startswith(scope + "/")]
    by_line = {}
    for e in es:
        by_line["%s %s" % (e["date"].replace("T", " "), e["orig"])] = e
    listed = []
    lines = r0.out.split("\n")
    i = 0
    ok = True
    while i < len(lines):
        ln = lines[i]
        m = re.match(r"^ *(\d+) (.*)$", ln)
        if m and len(ln) > 5 and ln[:4].strip().isdigit():
            # a name may contain newlines: extend the record until it matches a known entry
            # (the LONGEST known record wins: 'x' and 'x<LF>' may both be entries)
            rec = m.group(2)
            j = i
            best = (rec, j) if rec in by_line else None
            while j + 1 < len(lines) and len(rec) < 600:
                j += 1
                rec += "\n" + lines[j]
                if rec in by_line:
                    best = (rec, j)
            if best is not None:
                listed.append((int(m.group(1)), by_line[best[0]]))
                i = best[1] + 1
                continue
            ok = False
        i += 1
    out.classes += ["sort:" + tags["sort"], "req:" + req, "listed:%d" % min(len(listed), 5),
                    "exit0:%d" % r0.code]
    got = sorted(e["info"] for _, e in listed)
    if got != sorted(e["info"] for e in want) or not ok:
        out.fail("scope", "requested %s (cwd %s args %s): listed %s, expected %s; stderr %r" % (
            scope, cwd, sort + arg, [e["orig"] for _, e in listed], [e["orig"] for e in want],
            r0.err[-200:]), **tags)
        return out
    if [i for i, _ in listed] != list(range(len(listed))):
        out.fail("numbering", "indices printed: %s" % [i for i, _ in listed], **tags)
    if case["sort"] in (None, "date"):
        ds = [e["date"] for _, e in listed]
        if ds != sorted(ds):
            out.fail("order_date", "dates not non-decreasing: %s" % ds, **tags)
    elif case["sort"] == "path":
        ks = [(e["orig"], e["date"]) for _, e in listed]
        if ks != sorted(ks):
            out.fail("order_path", "not ordered by (path, date): %s" % ks, **tags)
    # ---- the reply
    reply = case["reply"]
    n = len(listed)
    if n:
        r1 = runner.run(spec, "trash-restore", sort + arg, stdin=reply + "\n")
        after = sandbox.snapshot()
        idx = plain_indices(reply) if reply != "" else []
        restored, intact, lost = [], [], []
        for k, e in listed:
            s0 = subtree(before, e["payload"])
            in_trash = e["info"] in after and subtree(after, e["payload"]) == s0
            at_dest = subtree(after, e["orig"]) == s0 and e["info"] not in after and \
                e["payload"] not in after
            (restored if at_dest and not in_trash else intact if in_trash and not at_dest
             else lost).append(k)
        # destinations may collide (same orig, or one orig inside another): then only no-loss
        origs = [e["orig"] for _, e in listed]
        rcls = "empty" if reply == "" else "plain" if isinstance(idx, list) else "other"
        if lost:
            sel_origs = []
            if isinstance(idx, list):
                sel_origs = [origs[i] for i in idx if i < n]
            collide = any(a != b and (a == b or a.startswith(b + "/") or b.startswith(a + "/"))
                          for a in sel_origs for b in sel_origs) or \
                len(sel_origs) != len(set(sel_origs)) or not isinstance(idx, list)
            def holds(p, want):
                # the entry is at p, possibly with other restored entries nested inside it
                got = subtree(after, p, dir_mtime=False)
                return all(kk in got and got[kk] == vv for kk, vv in want.items())
            truly_lost = []
            for k in lost:
                want = subtree(before, listed[k][1]["payload"], dir_mtime=False)
                if not (holds(listed[k][1]["orig"], want) or holds(listed[k][1]["payload"], want)
                        or any(subtree(after, p) == subtree(before, listed[k][1]["payload"]) for p in after)):
                    truly_lost.append(k)
            if truly_lost:
                out.fail("entry_lost", "reply %r: entries %s are neither in the trash nor restored" % (
                    reply, truly_lost), reply=rcls, **tags)
            elif not collide:
                out.fail("half_restored", "reply %r: entries %s are in an inconsistent state" % (
                    reply, lost), reply=rcls, **tags)
        if isinstance(idx, list) and len(set(idx)) == len(idx):
            sel = [origs[i] for i in idx if i < n]
            nest = any(a != b and (a.startswith(b + "/") or b.startswith(a + "/")) for a in sel for b in sel) \
                or len(set(sel)) != len(sel)
            if any(i >= n for i in idx):
                rcls = "out_of_range"
                if restored:
                    out.fail("restored_despite_invalid", "reply %r has an index out of range [0..%d] "
                             "but entries %s were restored" % (reply, n - 1, restored), reply=rcls, **tags)
                if r1.code == 0:
                    out.fail("invalid_exit_zero", "reply %r out of range but exit status 0" % reply,
                             reply=rcls, **tags)
            elif not nest and not any(origs[i] in before for i in idx):
                # (a destination that already exists is refused: C06's business)
                if sorted(restored) != sorted(idx):
                    out.fail("wrong_selection", "reply %r denotes %s, restored %s (exit %d, stderr %r)" % (
                        reply, sorted(idx), sorted(restored), r1.code, r1.err[-200:]), reply=rcls, **tags)
        elif reply == "" and restored:
            out.fail("empty_reply_restored", "restored %s" % restored, **tags)
        elif has_negative_bound(reply):
            rcls = "negative_bound"
            if restored or r1.code == 0:
                out.fail("negative_bound_accepted", "reply %r has a negative bound (never within "
                         "[0..%d]) but restored %s, exit %d" % (reply, n - 1, restored, r1.code),
                         reply=rcls, **tags)
        out.classes.append("reply:" + rcls)
        if n >= 3 and reply.count(",") >= 1:
            shape = re.sub(r"\d+", "N", reply)
            out.key = [tags["sort"], req, shape, n]
            out.sample = {"dir": scope, "args": sort + arg, "listed": origs, "reply": reply,
                          "restored_indices": restored, "exit": r1.code}
    fn_level(out, case, tags)
    return out


def fn_level(out, case, tags):
    try:
        from trashcli.restore.restore_asking_the_user import InvalidEntry, parse_indexes
    except ImportError:
        out.classes.append("fn:unavailable")
        return
    n = case["fn_len"]
    for reply in case["fn_replies"]:
        idx = plain_indices(reply)
        try:
            got = list(parse_indexes(reply, n).all_indexes())
            err = None
        except InvalidEntry as e:
            got, err = None, e
        except (ValueError, OverflowError, MemoryError) as e:
            got, err = None, e
        out.classes.append("fn:checked")
        if isinstance(idx, list):
            valid = all(i < n for i in idx)
            if valid and got != idx:
                out.fail("fn_parse", "parse_indexes(%r, %d) -> %r (%r), grammar says %r" % (
                    reply, n, got, err, idx), reply="plain", **tags)
            if not valid and got is not None:
                out.fail("fn_range", "parse_indexes(%r, %d) accepted out-of-range indices: %r" % (
                    reply, n, got), reply="out_of_range", **tags)
        elif got is not None and has_negative_bound(reply):
            out.fail("fn_negative_bound", "parse_indexes(%r, %d) accepted a negative bound: %r" % (
                reply, n, got), reply="negative_bound", **tags)
        elif got is not None and any(not (0 <= i < n) for i in got):
            out.fail("fn_range", "parse_indexes(%r, %d) returned out-of-range %r" % (reply, n, got),
                     reply="other", **tags)
