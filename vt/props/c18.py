"""C18 -- trash-put acts on the named entry itself and never follows a final symlink."""
import re

from hypothesis import strategies as st

from .. import gen, oracle, putcheck, runner, sandbox
from ..driver import Outcome
from ..sandbox import subtree

ID = "C18"
LEVEL = "exploration"
RULE = ("Hypothesis generates a symbolic link (name from the byte alphabet) whose target is a "
        "file / directory tree / another link / nothing, written relative or absolute, on the same "
        "or on another volume than the link, the argument spelling (0-3 trailing slashes, absolute "
        "/ relative / through a symlinked parent directory / through a chain of links) and the "
        "volume the link lives on; real trash-put, then trash-restore of the new entry. Oracle: if "
        "trashed, files/N is a symlink with the identical readlink text, the target subtree's "
        "snapshot is unchanged, the info's Path decodes to realpath(link's parent)/name, and the "
        "restore recreates the identical link at the identical path; if refused (kernel says the "
        "spelling names nothing, e.g. 'dangling/'), exit != 0 and nothing changed. Never: the "
        "target moved, emptied or copied into the trash. Non-trivial: argument names a symlink; "
        "distinct by (target kind, target form, volumes, slashes, reach, name class).")
ASSUMPTIONS = ["a spelling with trailing slashes names the link iff the kernel resolves it "
               "(link -> directory); 'link-to-file/' and 'dangling/' name nothing"]

TARGETS = ["file", "dir", "tree", "link_to_file", "link_to_dir", "nothing", "self", "dotdot",
           "volume_root", "fs_root"]


def examples(tier):
    return 4000 if tier == "quick" else 100000


@st.composite
def strategy_(draw, tier):
    return {"name": draw(gen.names(long_ok=False)),
            "target": draw(st.sampled_from(TARGETS)),
            "form": draw(st.sampled_from(["abs", "rel", "rel_dotdot", "abs_slash"])),
            "link_vol": draw(st.sampled_from(["home", "vol"])),
            "target_vol": draw(st.sampled_from(["home", "vol", "vol2"])),
            "slashes": draw(st.sampled_from([0, 0, 1, 2, 3])),
            "reach": draw(st.sampled_from(["abs", "rel", "dotrel", "via_link_dir", "via_link_chain", "via_link_gparent", "via_link_gparent"])),
            "uid": draw(st.sampled_from([1000, 0])),
            "top": draw(st.sampled_from(["absent", "sticky", "absent", "xdev_fallback"])),
            "opts": draw(st.sampled_from([[], ["-v"], ["-f"], ["-r"], ["-d"]])),
            # an earlier argument of the same invocation that is reached through the link
            # (state kept between arguments must not change what 'link/' means)
            "through_first": draw(st.integers(0, 3)) == 0}


def strategy(tier):
    return strategy_(tier)


def run_case(case):
    out = Outcome()
    home = "/home/u"
    vols = ["/vol", "/vol2"]
    roots = {"home": home, "vol": "/vol", "vol2": "/vol2"}
    D = roots[case["link_vol"]] + "/w"
    TD = roots[case["target_vol"]] + "/targets"
    L = D + "/" + case["name"]
    nodes = [{"p": D, "t": "d"},
             {"p": TD + "/file", "t": "f", "c": "target file content", "m": 0o640},
             {"p": TD + "/dir", "t": "d"},
             {"p": TD + "/tree/a", "t": "f", "c": "tree a"},
             {"p": TD + "/tree/sub/b", "t": "f", "c": "tree b"},
             {"p": TD + "/l2f", "t": "l", "to": "file"},
             {"p": TD + "/l2d", "t": "l", "to": "tree"}]
    env = {"HOME": home}
    xopts = []
    for v in ("/vol", "/vol2"):
        if case["top"] == "xdev_fallback":
            # volume trash unusable + fallback enabled both ways: links on /vol are trashed into the
            # home trash on another file system (symlink re-created there, original unlinked)
            nodes += gen.topdir_nodes(v, case["uid"], "absent", "file")
            env["TRASH_ENABLE_HOME_FALLBACK"] = "1"
            xopts = ["--home-fallback"]
        else:
            nodes += gen.topdir_nodes(v, case["uid"], case["top"], "absent")
    tname = {"file": "file", "dir": "dir", "tree": "tree", "link_to_file": "l2f",
             "link_to_dir": "l2d", "nothing": "missing"}.get(case["target"])
    import posixpath
    if case["target"] == "self":
        text = case["name"]
    elif case["target"] == "dotdot":
        text = ".."
    elif case["target"] == "volume_root":   # the link points at a mount point
        text = "/vol2" if case["link_vol"] != "vol2" else "/vol"
    elif case["target"] == "fs_root":
        text = "/"
    else:
        tp = TD + "/" + tname
        text = {"abs": tp, "rel": posixpath.relpath(tp, D),
                "rel_dotdot": "../w/" + posixpath.relpath(tp, D), "abs_slash": tp + "/"}[case["form"]]
    nodes.append({"p": L, "t": "l", "to": text})
    nodes.append({"p": "/data/ln", "t": "l", "to": D})
    nodes.append({"p": "/data/chain", "t": "l", "to": "ln"})
    # a symlinked directory that is NOT the immediate parent: /data/gp -> dirname(D), arg /data/gp/w/NAME
    nodes.append({"p": "/data/gp", "t": "l", "to": D.rsplit("/", 1)[0] or "/"})
    cwd = D
    arg = {"abs": L, "rel": case["name"], "dotrel": "./" + case["name"],
           "via_link_dir": "/data/ln/" + case["name"],
           "via_link_chain": "/data/chain/" + case["name"],
           "via_link_gparent": "/data/gp/w/" + case["name"]}[case["reach"]]
    arg += "/" * case["slashes"]
    spec = {"vols": vols, "nodes": nodes, "env": env, "uid": case["uid"], "cwd": cwd,
            "now": "2022-02-02T02:02:02"}
    sandbox.build_world(spec)
    before = sandbox.snapshot()
    first = []
    if case.get("through_first") and case["target"] in ("tree", "link_to_dir") and case["reach"] in ("abs", "rel", "dotrel"):
        # 'L/a' is a file inside the link's target directory, named through the link
        first = [arg.rstrip("/") + "/a"]
    res = runner.run(spec, "trash-put", xopts + case["opts"] + ["--"] + first + [arg])
    after = sandbox.snapshot()
    crossvol = case["link_vol"] != case["target_vol"] and case["target"] not in ("self", "dotdot")
    tags = dict(target=case["target"], slashes=min(case["slashes"], 1), crossvol=crossvol)
    ident = putcheck.identity(before, arg, cwd)
    named = ident is not None and ident[1] == L
    out.classes += ["through_first:%s" % bool(first), "top:" + case["top"], "target:" + case["target"], "form:" + case["form"], "reach:" + case["reach"],
                    "slashes:%d" % case["slashes"], "crossvol:%s" % crossvol, "exit:%d" % res.code,
                    "named:%s" % named]
    # targets are never touched, whatever happens
    for t in (TD,):
        bt, at = subtree(before, t), subtree(after, t)
        if first:
            for k in ("tree/a", "tree"):
                bt.pop(k, None)
                at.pop(k, None)
        if at != bt:
            out.fail("target_touched", "the link's target area %s changed: %s" % (
                t, sorted(set(subtree(before, t).items()) ^ set(subtree(after, t).items()))[:3]), **tags)
    pa = putcheck.PutAnalysis(before, after, sandbox.read_bytes, vols)
    if first:
        fid = putcheck.identity(before, first[0], cwd)
        if fid is not None:
            fs_, finfo = pa.state_of(fid[1])
            if fs_ == "X":
                out.fail("companion_not_conserved", "first argument %r: %s" % (first[0], finfo), **tags)
    if not named:
        # the spelling names nothing (or not the link): nothing may change and it must be refused
        if after != before and not only_skeleton(before, after):
            out.fail("refused_but_changed", "argument %r names no entry, yet the file system "
                     "changed (exit %d)" % (arg, res.code), **tags)
        if res.code == 0 and "-f" not in case["opts"]:
            out.fail("refused_exit_zero", "argument %r names no entry but exit status is 0" % arg, **tags)
        state = "N"
    else:
        state, info = pa.state_of(L)
        if state == "X":
            out.fail("link_not_conserved", "argument %r: %s (exit %d, stderr %r)" % (
                arg, info, res.code, res.err[-300:]), **tags)
        elif state == "T":
            payload = info
            n = after[payload]
            if n.t != "l" or n.target != text:
                out.fail("payload_not_the_link", "payload %s is %s -> %r, the link was -> %r" % (
                    payload, n.t, n.target, text), **tags)
            si, sp = pa.leftovers()
            if si or sp:
                out.fail("leftovers", "stray infos %s, orphan payloads %s" % (si[:2], sp[:2]), **tags)
            if res.code != 0:
                out.fail("trashed_but_failure", "link trashed but exit %d" % res.code, **tags)
            # restore it
            r2 = runner.run(spec, "trash-restore", ["--", L], cwd="/", stdin="0\n")
            fin = sandbox.snapshot()
            if subtree(fin, L) != subtree(before, L):
                out.fail("restore_not_identical", "restore gave %s, original %s (exit %d, stderr %r)" % (
                    subtree(fin, L), subtree(before, L), r2.code, r2.err[-200:]), **tags)
            bt2, ft2 = subtree(before, TD), subtree(fin, TD)
            if first:
                for k in ("tree/a", "tree"):
                    bt2.pop(k, None)
                    ft2.pop(k, None)
            if ft2 != bt2:
                out.fail("target_touched", "restore changed the target area", **tags)
        else:
            lstat_ok = case["slashes"] == 0 or (
                oracle.resolve(before, arg, cwd) is not None)
            if res.code == 0 and (lstat_ok or "-f" not in case["opts"]):
                out.fail("untouched_exit_zero", "link still in place but exit status 0", **tags)
            if lstat_ok:
                out.fail("link_refused", "argument %r names the link (lstat succeeds) but it was "
                         "not trashed: exit %d, stderr %r" % (arg, res.code, res.err[-300:]), **tags)
            si, sp = pa.leftovers()
            if si or sp:
                out.fail("leftovers", "stray infos %s, orphan payloads %s" % (si[:2], sp[:2]), **tags)
    out.classes.append("state:" + state)
    out.key = [case["target"], case["form"], case["link_vol"], case["target_vol"],
               min(case["slashes"], 2), case["reach"], gen.name_class(case["name"]), state,
               case["top"] == "xdev_fallback", bool(first)]
    out.sample = {"link": L, "text": text, "arg": arg, "state": state, "exit": res.code}
    return out


def only_skeleton(before, after):
    """difference consists of newly created empty directories only (trash dir skeleton)"""
    for p, n in before.items():
        m = after.get(p)
        if m is None or sandbox.sig(m, n.t != "d") != sandbox.sig(n, n.t != "d"):
            return False
    return all(after[p].t == "d" for p in after if p not in before)
