"""C14 -- no purge without consent: --dry-run and a negative answer change nothing."""
from hypothesis import strategies as st

from .. import gen, runner, sandbox
from ..driver import Outcome
from . import c10

ID = "C14"
LEVEL = "exploration"
RULE = ("Trash contents, DAYS and clock as generated for C10, plus mode {dry-run, -i with a "
        "generated reply, default-interactive through a pseudo terminal on stdin}, -v and "
        "--trash-dir. Dry run is metamorphic: the world is built twice from one spec; run A "
        "`trash-empty --dry-run ARGS` must leave the full snapshot (including directory mtimes) "
        "unchanged, run B `trash-empty ARGS` gives the removed top-level paths; {printed paths "
        "that exist} must equal removed(B). Replies not beginning with y/Y (empty, blanks first, "
        "n..., look-alikes, EOF) must leave the snapshot unchanged; replies beginning with y/Y "
        "are positive controls (must purge like the non-interactive run). Non-trivial: the real "
        "run would remove >= 1 path; distinct by (mode, reply class, DAYS class, options, "
        "number of removed paths bucket).")
ASSUMPTIONS = ["a printed path that does not exist (info without payload) is not counted as removed",
               "names containing a newline are matched as whole 'would remove <path>\\n' records"]

REPLIES = ["", "\n", "n\n", "N\n", "no\n", " y\n", "\ty\n", "ｙ\n", "у\n", "1\n", "true\n",
           "ok\n", "q\n", "yes", "y\n", "Y\n", "yes\n", "YES\n", "yep nope\n", "Yn\n", "\x00y\n",
           "-y\n", "n\ny\n"]


def examples(tier):
    return 6000 if tier == "quick" else 120000


@st.composite
def strategy_(draw, tier):
    base = draw(c10.strategy_(tier))
    base["mode"] = draw(st.sampled_from(["dry", "dry", "reply_i", "reply_tty", "reply_tty_noctty"]))
    base["reply"] = draw(st.one_of(st.sampled_from(REPLIES),
                                   st.text(alphabet="yYnN \t", max_size=4).map(lambda s: s + "\n")))
    base["use_trash_dir"] = draw(st.booleans())
    # some entries get a name that cannot be encoded for stdout (not valid UTF-8): printing
    # 'would remove ...' / 'removing ...' fails there, which must never turn into a purge
    if draw(st.integers(0, 3)) == 0:
        for e in base["ents"]:
            if draw(st.booleans()):
                e["orig"] = e["orig"] + draw(st.sampled_from(["\udce9", "\udcff\udcfe", "caf\udce9"]))
    return base


def strategy(tier):
    return strategy_(tier)


def toplevel(snap):
    return {p for p in snap if ("/files/" in p and "/" not in p.split("/files/", 1)[1]) or
            ("/info/" in p and "/" not in p.split("/info/", 1)[1])}


def run_case(case):
    out = Outcome()
    tw = c10.build(case)
    now = gen.date_str(case["now"])
    spec = tw.spec(cwd="/", now=now if case["via"] == "clock" else "2001-01-01T00:00:00")
    env = {"TRASH_DATE": now} if case["via"] == "TRASH_DATE" else {}
    days = case["days"]
    args = (["-v"] if case["verbose"] else [])
    if case["use_trash_dir"]:
        args += ["--trash-dir", case["ents"][0]["tdir"]]
    if days is not None:
        args.append(str(days))
    dcl = "none" if days is None else ("huge" if days > 100000 else "0" if days == 0 else "pos")
    mode = case["mode"]
    reply = case["reply"]
    yes = reply[0:1] in ("y", "Y")
    nonutf8 = any("nonutf8" in gen.name_class(e["orig"].rsplit("/", 1)[1]) for e in case["ents"])
    tags = dict(mode=mode, days=dcl, nonutf8=nonutf8)
    # reference: what the plain command removes
    sandbox.build_world(spec)
    before = sandbox.snapshot()
    rb = runner.run(spec, "trash-empty", ["-f"] + args, env=env)
    after_b = sandbox.snapshot()
    removed = {p for p in toplevel(before) if p not in after_b}
    sandbox.build_world(spec)
    before = sandbox.snapshot()
    if mode == "dry":
        ra = runner.run(spec, "trash-empty", ["--dry-run"] + args, env=env)
        after = sandbox.snapshot()
        if after != before:
            diff = [p for p in set(before) | set(after) if before.get(p) != after.get(p)]
            out.fail("dry_run_changed", "--dry-run modified the file system: %s" % sorted(diff)[:4], **tags)
        # names may contain newlines: records are matched longest first and consumed, so that
        # 'files/a<LF>b' (printed for an info without payload) is not read as the existing 'files/a'
        cands = set(toplevel(before))
        for q in list(cands):
            if "/info/" in q and q.endswith(".trashinfo"):
                cands.add(q.replace("/info/", "/files/", 1)[:-len(".trashinfo")])
        text, printed = ra.out, set()
        for q in sorted(cands, key=len, reverse=True):
            rec = "would remove %s\n" % q
            if rec in text:
                text = text.replace(rec, "")
                if q in before:
                    printed.add(q)
        if printed != removed:
            out.fail("dry_run_mismatch", "printed-and-existing %s != removed by the real run %s "
                     "(only printed: %s, only removed: %s)" % (
                         len(printed), len(removed), sorted(printed - removed)[:3],
                         sorted(removed - printed)[:3]), **tags)
        rcls = "dry"
    else:
        tty = {"reply_tty": True, "reply_tty_noctty": "noctty"}.get(mode, False)
        a = args if tty else ["-i"] + args
        sent = reply
        if tty:  # a terminal has no EOF after the text: end the line, or send ^D on an empty one
            sent = "\x04" if reply == "" else (reply if reply.endswith("\n") else reply + "\n")
        ra = runner.run(spec, "trash-empty", a, env=env, stdin=sent, tty=tty)
        after = sandbox.snapshot()
        rcls = "yes" if yes else ("empty" if reply.strip() == "" else "no")
        if reply == "":
            rcls = "eof"
        if not yes:
            if after != before:
                diff = [p for p in set(before) | set(after) if before.get(p) != after.get(p)]
                out.fail("purged_without_consent", "reply %r (%s) but the file system changed: %s" % (
                    reply, mode, sorted(diff)[:4]), reply=rcls, **tags)
        else:
            gone = {p for p in toplevel(before) if p not in after}
            if gone != removed:
                out.fail("consent_not_honoured", "reply %r (%s): removed %d paths, the "
                         "non-interactive run removes %d (stderr %r)" % (
                             reply, mode, len(gone), len(removed), ra.err[-200:]), reply=rcls, **tags)
    out.classes += ["mode:" + mode, "reply:" + rcls, "days:" + dcl, "exit:%d" % ra.code,
                    "nonutf8_names:%s" % nonutf8,
                    "trash_dir_opt:%s" % case["use_trash_dir"]]
    if removed:
        out.key = [mode, rcls, dcl, case["verbose"], case["use_trash_dir"], min(len(removed), 6), nonutf8]
        out.sample = {"args": args, "mode": mode, "reply": reply, "removed_by_real_run": len(removed),
                      "exit": ra.code}
    return out
