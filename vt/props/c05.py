"""C05 -- killing trash-put at any instant loses nothing and leaves no orphan payload."""
from hypothesis import strategies as st

from .. import gen, oracle, runner, sandbox
from ..driver import Outcome
from ..sandbox import subtree

ID = "C05"
LEVEL = "fault_enumeration"
RULE = ("Hypothesis generates a scenario: 1-3 entries of any kind, the trash dir that will receive "
        "them (home / $topdir/.Trash/$uid / $topdir/.Trash-$uid / home fallback across volumes = "
        "copy + delete), its state (first use, existing, name collision, >= 100 collisions), "
        "options. A fault-free run under the os-level interposer records the N mutating operations "
        "(mkdir, open O_EXCL, write, close, rename, fopen, sendfile, chmod, utime, unlink, rmdir ...); "
        "then the world is rebuilt and trash-put is killed (os._exit, like SIGKILL) immediately "
        "before mutating operation k, for EVERY k in 1..N, and immediately AFTER every unlink / rmdir / rename (user-space buffers are lost there); and it is interrupted like Ctrl-C "
        "(KeyboardInterrupt raised right before and right after operation k, so that finally / "
        "except clauses run) for every k as well. Oracle on each post-crash disk: every "
        "entry is complete (deep-equal to its pre-snapshot) at its original place or complete "
        "under files/ of a trash dir - never missing from both, never partly in each; every node "
        "under any files/ has info/<name>.trashinfo present and parseable (Path and DeletionDate) "
        "by an own decoder. Non-trivial: crash strictly inside the run; distinct by (scenario "
        "class, kind of the operation the crash precedes, its ordinal bucket).")
ASSUMPTIONS = ["crash points are the boundaries between Python-level os.* operations of the process "
               "(SIGKILL model); torn writes / power-loss reordering are outside the model"]


def examples(tier):
    return 450 if tier == "quick" else 12000


@st.composite
def strategy_(draw, tier):
    n = draw(st.integers(1, 3))
    ents = [dict(kind=draw(st.sampled_from(["file", "empty", "tree", "tree", "link_dangling", "link_dir", "dir", "fifo"])),
                 name=draw(st.sampled_from(["foo", "foo", "bar"]) if i == 0 else gen.names(long_ok=False)),
                 tree=draw(gen.entry_nodes("/E", "tree", ["/keep", "nowhere"])),
                 big=draw(st.booleans()))
            for i in range(n)]
    return {"ents": ents,
            "target": draw(st.sampled_from(["home", "home", "top_sticky", "top_alt", "fallback", "fallback",
                                            "top_alt_fb", "top_sticky_fb"])),
            "state": draw(st.sampled_from(["first_use", "existing", "collision", "collision100"])),
            "opts": draw(st.sampled_from([[], ["-v"], ["-f"]])),
            "uid": draw(st.sampled_from([1000, 0]))}


def strategy(tier):
    return strategy_(tier)


def build(case):
    uid = case["uid"]
    home = "/home/u"
    vols = ["/vol"]
    tgt = case["target"]
    env = {"HOME": home}
    opts = list(case["opts"])
    on_home = tgt == "home"
    root = home if on_home else "/vol"
    nodes = [{"p": root + "/w", "t": "d"}, {"p": "/keep/x", "t": "f", "c": "x"}]
    if tgt.endswith("_fb"):
        # the volume trash is usable AND the home fallback is enabled both ways: under a fault in
        # the volume trash, trash-put moves on to the home trash (another file system)
        env["TRASH_ENABLE_HOME_FALLBACK"] = "1"
        opts.append("--home-fallback")
        tgt = tgt[:-3]
    if tgt == "top_sticky":
        nodes += gen.topdir_nodes("/vol", uid, "sticky", "absent")
        tdir = "/vol/.Trash/%d" % uid
    elif tgt == "top_alt":
        tdir = "/vol/.Trash-%d" % uid
    elif tgt == "fallback":
        nodes.append({"p": "/vol/.Trash-%d" % uid, "t": "f", "c": "blocks the volume trash"})
        env["TRASH_ENABLE_HOME_FALLBACK"] = "1"
        opts.append("--home-fallback")
        tdir = home + "/.local/share/Trash"
    else:
        tdir = home + "/.local/share/Trash"
    files = []
    seen = set()
    for i, e in enumerate(case["ents"]):
        nm = e["name"]
        if nm in seen:
            nm = nm + str(i)
        seen.add(nm)
        p = root + "/w/" + nm
        k = e["kind"]
        if k in ("file", "empty"):
            nodes.append({"p": p, "t": "f", "c": "content-%d " % i if k == "file" else "",
                          "rep": 3000 if (e["big"] and k == "file") else 1, "m": 0o640, "mt": 1234567890})
        elif k == "dir":
            nodes.append({"p": p, "t": "d", "m": 0o750})
        elif k == "tree":
            for n in e["tree"]:
                n = dict(n)
                n["p"] = p + n["p"][2:]
                nodes.append(n)
        elif k == "link_dangling":
            nodes.append({"p": p, "t": "l", "to": "nowhere"})
        elif k == "fifo":
            nodes.append({"p": p, "t": "p", "m": 0o640, "mt": 1234567890})
        else:
            nodes.append({"p": p, "t": "l", "to": "/keep"})
        files.append(p)
    st_ = case["state"]
    first = files[0].rsplit("/", 1)[1]
    if st_ != "first_use":
        nodes += [{"p": tdir + "/files", "t": "d", "m": 0o700}, {"p": tdir + "/info", "t": "d", "m": 0o700}]
    if st_ in ("collision", "collision100"):
        nmax = 100 if st_ == "collision100" else 1
        for j in range(nmax):
            nm = first if j == 0 else "%s_%d" % (first, j)
            nodes += gen.trashed_pair_nodes(tdir, nm, b"/old/place/" + sandbox.fsenc(first),
                                            "2001-01-01T00:00:00", content="old %d" % j)
    spec = {"vols": vols, "nodes": nodes, "env": env, "uid": uid, "cwd": root + "/w",
            "now": "2022-02-02T02:02:02"}
    return spec, opts, files, tdir


def judge(out, before, after, files, tags, what):
    """invariants on a post-crash disk"""
    tdirs = []
    for td in sorted(oracle.trash_dirs_in(after), key=lambda t: t.count("/")):
        if not any(td.startswith(t + "/files/") for t in tdirs):
            tdirs.append(td)
    payloads = []
    for td in tdirs:
        ents = oracle.scan_trash(after, td, sandbox.read_bytes)
        for nm, e in ents.items():
            if e["payload"] is None:
                continue
            payloads.append(e["payload"])
            if e["info"] is None:
                out.fail("payload_without_info", "%s: payload %s has no .trashinfo" % (what, e["payload"]), **tags)
            elif e["path"] is None or not oracle.date_ok(e["date"]):
                out.fail("info_incomplete", "%s: %s is not a complete .trashinfo: %r" % (
                    what, e["info"], e["raw"]), **tags)
    for f in files:
        sigma = subtree(before, f)
        at_place = subtree(after, f) == sigma
        in_trash = any(subtree(after, p) == sigma for p in payloads)
        if not at_place and not in_trash:
            here = sorted(subtree(after, f))[:4]
            out.fail("entry_lost_or_split", "%s: %s is complete neither at its place (has %s of %d "
                     "nodes) nor in the trash" % (what, f, len(subtree(after, f)), len(sigma)), **tags)
    # pre-existing trash content is never damaged
    for p, n in before.items():
        if any(p.startswith(t + "/files/") or p.startswith(t + "/info/") for t in tdirs):
            if p not in after or sandbox.sig(after[p]) != sandbox.sig(n):
                out.fail("old_trash_damaged", "%s: pre-existing %s changed" % (what, p), **tags)
                break


def run_case(case):
    out = Outcome()
    spec, opts, files, tdir = build(case)
    sandbox.build_world(spec)
    before = sandbox.snapshot()
    # (the clock advances by 7 s at every reading: a run takes time, two readings differ)
    ref = runner.run(spec, "trash-put", opts + ["--"] + files, plan={"clock_step": 7})
    n = ref.n_mut
    muts = [t for t in ref.trace if t[1]]
    scen = "%s/%s/%s" % (case["target"], case["state"], "+".join(sorted(set(e["kind"] for e in case["ents"]))))
    tags = dict(target=case["target"], state=case["state"])
    out.classes += ["target:" + case["target"], "state:" + case["state"], "ops:%d" % (n // 10 * 10),
                    "ref_exit:%d" % ref.code]
    special_xdev = any(e["kind"] == "fifo" for e in case["ents"]) and "fallback" in case["target"] or \
        any(e["kind"] == "fifo" for e in case["ents"]) and case["target"].endswith("_fb")
    if ref.code != 0 and not special_xdev:
        # (a fifo cannot be copied to another volume: there the fault-free run legitimately refuses it)
        out.fail("reference_run_failed", "fault-free trash-put failed: %r" % ref.err[-300:], **tags)
        return out
    judge(out, before, sandbox.snapshot(), files, tags, "no crash")
    for k in range(1, n + 1):
        sandbox.build_world(spec)
        r = runner.run(spec, "trash-put", opts + ["--"] + files, plan={"crash_at": k, "clock_step": 7})
        if r.code != 137:
            out.fail("crash_not_delivered", "run with crash_at=%d exited %d (nondeterministic op "
                     "sequence?)" % (k, r.code), **tags)
            break
        after = sandbox.snapshot()
        op = muts[k - 1][2] if k - 1 < len(muts) else "?"
        judge(out, before, after, files, dict(tags, op=op), "killed before op %d/%d (%s %s)" % (
            k, n, op, muts[k - 1][3][:1] if k - 1 < len(muts) else ""))
        out.classes.append("crash_before:" + op)
        out.keys.append([scen, op, min(k * 4 // max(n, 1), 3)])
        if out.fails:
            break
    # Killed right AFTER a destructive operation (unlink / rmdir / rename / remove): between two
    # intercepted operations the process may still hold data in user-space buffers (buffered
    # writers flush in C, below the interposer), which a SIGKILL there loses.
    if not out.fails:
        for k in range(1, n + 1):
            op = muts[k - 1][2] if k - 1 < len(muts) else "?"
            if op not in ("unlink", "remove", "rmdir", "rename", "replace"):
                continue
            sandbox.build_world(spec)
            r = runner.run(spec, "trash-put", opts + ["--"] + files, plan={"crash_after": k, "clock_step": 7})
            if r.code != 137:
                continue
            after = sandbox.snapshot()
            judge(out, before, after, files, dict(tags, op=op, kill="after"),
                  "killed right after op %d/%d (%s %s)" % (k, n, op, muts[k - 1][3][:1]))
            out.classes.append("crash_after:" + op)
            out.keys.append([scen, "after", op, min(k * 4 // max(n, 1), 3)])
            if out.fails:
                break
    # Ctrl-C: Python turns SIGINT into KeyboardInterrupt at the next bytecode boundary, so - unlike
    # SIGKILL - `finally` / `except BaseException` clauses of trash-put still run. Raised right
    # before and right after every mutating operation.
    if not out.fails:
        for k in range(1, n + 1):
            for when in ("before", "after"):
                sandbox.build_world(spec)
                r = runner.run(spec, "trash-put", opts + ["--"] + files, plan={"interrupt": [k, when], "clock_step": 7})
                after = sandbox.snapshot()
                op = muts[k - 1][2] if k - 1 < len(muts) else "?"
                judge(out, before, after, files, dict(tags, op=op, kill="sigint"),
                      "interrupted (SIGINT) %s op %d/%d (%s %s), exit %d" % (
                          when, k, n, op, muts[k - 1][3][:1] if k - 1 < len(muts) else "", r.code))
                out.classes.append("sigint_%s:%s" % (when, op))
                out.keys.append([scen, "sigint_" + when, op, min(k * 4 // max(n, 1), 3)])
                if out.fails:
                    break
            if out.fails:
                break
    out.sample = {"scenario": scen, "argv": opts + files, "mutating_ops": n,
                  "ops": [[t[2], t[3][0] if t[3] else None] for t in muts][:40]}
    return out
