"""C19 -- a malformed trash entry never prevents the well-formed ones from being handled."""
import re

from hypothesis import strategies as st

from .. import gen, oracle, runner, sandbox
from ..driver import Outcome
from ..sandbox import fsenc, subtree

ID = "C19"
LEVEL = "exploration"
RULE = ("Metamorphic: Hypothesis generates a multiset Wf of 2-5 well-formed entries over home and "
        "$topdir trash dirs, a set M of 1-4 malformed neighbours {non-.trashinfo file in info/, "
        "empty, truncated, binary, non-UTF-8 info, no Path, no DeletionDate, invalid date (also well-shaped impossible ones such as Feb 30, hour 24, year 0), info "
        "without payload, payload without info, directory named *.trashinfo (one, or 150 of them with the "
        "command's descriptor table limited to 128), dangling symlink named *.trashinfo, info named "
        "..trashinfo / ...trashinfo; optionally claiming the same original location as a well-formed entry}, a readdir permutation seed (os.listdir results are permuted by the "
        "interposer) and a command {list; list --size; list --files; restore x sort x chosen entry; rm pattern; empty; empty "
        "DAYS}. The command runs on world(Wf) and on world(Wf u M); stdout records and all "
        "effects RESTRICTED TO Wf must be identical (same lines listed, same entry restored to the "
        "same place, same set removed / kept). Non-trivial: |Wf| >= 2, |M| >= 1; distinct by "
        "(command, sorted malformed kinds, |Wf|).")
ASSUMPTIONS = ["the entry to restore is addressed by the index printed for it in each run"]

MKINDS = ["non_trashinfo", "empty", "truncated", "binary", "nonutf8", "no_path", "no_date",
          "bad_date", "no_payload", "orphan", "dir_trashinfo", "dangling_trashinfo", "long_orphan",
          "long_non_trashinfo", "tz_date", "dot_info", "dotdot_info", "many_dirs", "impossible_date", "loop_payload", "notdir_payload"]
CMDS = ["list", "list_size", "list_files", "restore_date", "restore_path", "restore_none", "rm", "empty", "empty_days"]


def examples(tier):
    return 3000 if tier == "quick" else 80000


@st.composite
def strategy_(draw, tier):
    tw = gen.draw_layout(draw, layouts=["flat", "onevol", "twovol"])
    tds = gen.draw_tdirs(draw, tw)
    wf = []
    for i in range(draw(st.integers(2, 5))):
        tdir, base = draw(st.sampled_from(tds))
        d = draw(st.sampled_from(gen.orig_dirs(tw, base)))
        wf.append(dict(tdir=tdir, base=base, orig=d + "/wf%d-%s" % (i, draw(gen.names(simple=True))),
                       date=draw(st.sampled_from([100, 200, 300, 86400 * 40])),
                       kind=draw(st.sampled_from(["file", "tree", "link"]))))
    mal = []
    for i in range(draw(st.integers(1, 4))):
        tdir, base = draw(st.sampled_from(tds))
        mal.append(dict(tdir=tdir, base=base, kind=draw(st.sampled_from(MKINDS)),
                        name="m%d%s" % (i, draw(st.sampled_from(["", " x", "é"]))),
                        # the malformed entry may claim the SAME original location as a well-formed
                        # one (the same file trashed twice, one info damaged): ties on the path
                        same_path_as=draw(st.sampled_from([None, None, 0, 1]))))
    return {"layout": tw.layout, "uid": tw.uid, "wf": wf, "mal": mal,
            "cmd": draw(st.sampled_from(CMDS)), "pick": draw(st.integers(0, 4)),
            "perm": draw(st.integers(0, 1000)),
            "pattern": draw(st.sampled_from(["wf0*", "wf[01]*", "*", "wf1-?*", "m*"]))}


def strategy(tier):
    return strategy_(tier)


def build(case, with_m):
    vols, home = gen.LAYOUTS[case["layout"]]
    tw = gen.TrashWorld(vols, home, case["uid"])
    es = []
    for i, e in enumerate(case["wf"]):
        es.append(tw.add(e["tdir"], e["base"], e["orig"], gen.date_str(e["date"]), kind=e["kind"],
                         content="wf %d" % i, link_to="/nowhere", name="wf-%d" % i))
    if with_m:
        for m in case["mal"]:
            td, base, nm, k = m["tdir"], m["base"], m["name"], m["kind"]
            tw.ensure_tdir(td, base)
            ip = td + "/info/" + nm + ".trashinfo"
            pv = b"/home/u/w/" + fsenc(nm) if base is None else b"w/" + fsenc(nm)
            sp = m.get("same_path_as")
            if sp is not None:
                w = case["wf"][sp % len(case["wf"])]
                if base is None:
                    pv = fsenc(w["orig"])
                elif w["orig"].startswith(base.rstrip("/") + "/"):
                    pv = fsenc(w["orig"][len(base.rstrip("/")) + 1:])
            good = oracle.make_info(pv, "1999-12-31T23:59:59")  # never equal to a well-formed entry's date
            pay = {"p": td + "/files/" + nm, "t": "f", "c": "malformed's payload"}
            if k == "non_trashinfo":
                tw.nodes.append({"p": td + "/info/" + nm + ".txt", "t": "f", "c": "hello"})
            elif k == "empty":
                tw.nodes += [{"p": ip, "t": "b", "b": []}, pay]
            elif k == "truncated":
                tw.nodes += [{"p": ip, "t": "b", "b": list(b"[Trash Info]\nPa")}, pay]
            elif k == "binary":
                tw.nodes += [{"p": ip, "t": "b", "b": [0, 1, 2, 10, 80, 97, 116, 104, 61, 0, 10, 127]}, pay]
            elif k == "nonutf8":
                tw.nodes += [{"p": ip, "t": "b", "b": list(b"[Trash Info]\nPath=\xff\xfe\xfa\nDeletionDate=2000-01-01T00:00:00\n")}, pay]
            elif k == "no_path":
                tw.nodes += [{"p": ip, "t": "b", "b": list(b"[Trash Info]\nDeletionDate=2000-01-01T00:00:00\n")}, pay]
            elif k == "no_date":
                tw.nodes += [{"p": ip, "t": "b", "b": list(b"[Trash Info]\nPath=" + oracle.pct_encode(pv) + b"\n")}, pay]
            elif k == "bad_date":
                tw.nodes += [{"p": ip, "t": "b", "b": list(b"[Trash Info]\nPath=" + oracle.pct_encode(pv) + b"\nDeletionDate=yesterday\n")}, pay]
            elif k == "tz_date":
                # RFC 3339 style date with a zone: not the spec's format, i.e. an invalid date
                z = [b"2001-02-03T04:05:06Z", b"2001-02-03T04:05:06+01:00", b"2001-02-03T04:05:06+0100"][len(nm) % 3]
                tw.nodes += [{"p": ip, "t": "b", "b": list(b"[Trash Info]\nPath=" + oracle.pct_encode(pv) + b"\nDeletionDate=" + z + b"\n")}, pay]
            elif k == "impossible_date":
                # the right shape, but no such day / hour / second
                z = [b"2021-02-30T10:00:00", b"2001-13-01T00:00:00", b"2001-01-01T24:00:00",
                     b"2001-01-01T00:00:60", b"0000-00-00T00:00:00", b"2001-04-31T00:00:00"][(len(nm) + case["perm"]) % 6]
                tw.nodes += [{"p": ip, "t": "b", "b": list(b"[Trash Info]\nPath=" + oracle.pct_encode(pv) + b"\nDeletionDate=" + z + b"\n")}, pay]
            elif k == "loop_payload":
                # a well-formed info whose payload is a symlink to itself: stat(2) answers ELOOP
                tw.nodes += [{"p": ip, "t": "b", "b": list(good)},
                             {"p": td + "/files/" + nm, "t": "l", "to": nm}]
            elif k == "notdir_payload":
                # ... or a symlink whose target runs through a regular file: ENOTDIR
                tw.nodes += [{"p": ip, "t": "b", "b": list(good)},
                             {"p": td + "/files/" + nm, "t": "l", "to": "../info/" + nm + ".trashinfo/x"}]
            elif k == "no_payload":
                tw.nodes += [{"p": ip, "t": "b", "b": list(good)}]
            elif k == "many_dirs":
                # 150 directories named *.trashinfo: more than the descriptor table of the command
                # (plan nofile=128) can hold if each one leaks a descriptor
                tw.nodes += [{"p": td + "/info/%s-%03d.trashinfo" % (nm, j), "t": "d"} for j in range(150)]
            elif k in ("dot_info", "dotdot_info"):
                # a well-formed info file whose NAME maps to the payload files/. or files/..
                tw.nodes += [{"p": td + "/info/" + ("." if k == "dot_info" else "..") + ".trashinfo",
                              "t": "b", "b": list(good)}]
            elif k == "orphan":
                tw.nodes += [pay]
            elif k == "long_orphan":
                # payload without info whose name + '.trashinfo' exceeds NAME_MAX
                tw.nodes += [{"p": td + "/files/" + nm + "o" * (250 - len(fsenc(nm))), "t": "f", "c": "x"}]
            elif k == "long_non_trashinfo":
                tw.nodes += [{"p": td + "/info/" + nm + "i" * (250 - len(fsenc(nm))), "t": "f", "c": "x"}]
            elif k == "dir_trashinfo":
                tw.nodes += [{"p": ip + "/inside", "t": "f", "c": "x"}, pay]
            elif k == "dangling_trashinfo":
                tw.nodes += [{"p": ip, "t": "l", "to": "/nowhere/at/all"}, pay]
    return tw, es


def observe(case, with_m):
    tw, es = build(case, with_m)
    spec = tw.spec(cwd="/")
    sandbox.build_world(spec)
    before = sandbox.snapshot()
    plan = {"perm_seed": case["perm"], "nofile": 128}
    cmd = case["cmd"]
    pick = es[case["pick"] % len(es)]
    res = None
    info = {}
    if cmd == "list":
        res = runner.run(spec, "trash-list", [], plan=plan)
        info["lines"] = sorted(gen.list_line(e) for e in es if (gen.list_line(e) + "\n") in res.out)
    elif cmd == "list_size":
        # expected record of a well-formed entry: what stat(2) says about its payload (0 for a
        # dangling link), a blank, the original location
        import os
        want = []
        for e in es:
            try:
                sz = os.stat(sandbox.wp(e["payload"])).st_size
            except OSError:
                sz = 0
            want.append("%d %s" % (sz, e["orig"]))
        res = runner.run(spec, "trash-list", ["--size"], plan=plan)
        info["lines"] = sorted(w for w in want if (w + "\n") in res.out)
    elif cmd == "list_files":
        res = runner.run(spec, "trash-list", ["--files"], plan=plan)
        want = ["%s -> %s" % (gen.list_line(e), e["payload"]) for e in es]
        info["lines"] = sorted(w for w in want if (w + "\n") in res.out)
    elif cmd.startswith("restore"):
        sort = ["--sort", cmd.split("_")[1]]
        r0 = runner.run(spec, "trash-restore", sort + ["/"], stdin="", plan=plan)
        m = re.search(r"(?m)^ *(\d+) " + re.escape(gen.list_line(pick)) + "$", r0.out)
        info["offered"] = sorted(e["name"] for e in es if re.search(
            r"(?m)^ *\d+ " + re.escape(gen.list_line(e)) + "$", r0.out))
        if m:
            res = runner.run(spec, "trash-restore", sort + ["/"], stdin=m.group(1) + "\n", plan=plan)
        else:
            res = r0
    elif cmd == "rm":
        res = runner.run(spec, "trash-rm", [case["pattern"]], plan=plan)
    elif cmd == "empty":
        res = runner.run(spec, "trash-empty", [], plan=plan)
    else:
        res = runner.run(spec, "trash-empty", ["1"], plan=plan,
                         env={"TRASH_DATE": gen.date_str(86400 * 2)})
    after = sandbox.snapshot()
    st_ = {}
    for e in es:
        s0 = subtree(before, e["payload"])
        in_trash = e["info"] in after and subtree(after, e["payload"]) == s0
        restored = subtree(after, e["orig"]) == s0 and e["info"] not in after
        gone = e["info"] not in after and e["payload"] not in after and not restored
        st_[e["name"]] = "trash" if in_trash else "restored" if restored else "gone" if gone else "broken"
    info["states"] = st_
    info["exit"] = res.code
    info["err"] = res.err[-300:]
    return info


def run_case(case):
    out = Outcome()
    a = observe(case, False)
    b = observe(case, True)
    kinds = sorted(set(m["kind"] for m in case["mal"]))
    cmd = case["cmd"]
    tags = dict(cmd=cmd)
    for k in ("nonutf8", "dir_trashinfo", "no_date", "bad_date", "dangling_trashinfo", "long_orphan",
              "dot_info", "dotdot_info"):
        tags["has_" + k] = k in kinds
    out.classes += ["cmd:" + cmd] + ["m:" + k for k in kinds]
    for key in ("lines", "offered"):
        if key in a and a[key] != b.get(key):
            out.fail("output_differs", "%s: well-formed entries %s: %r without the malformed "
                     "neighbours %s, %r with them (exit %d, stderr %r)" % (
                         cmd, key, a[key], kinds, b.get(key), b["exit"], b["err"]), **tags)
    if a["states"] != b["states"]:
        diff = {k: (a["states"][k], b["states"][k]) for k in a["states"] if a["states"][k] != b["states"][k]}
        out.fail("effect_differs", "%s: fate of well-formed entries differs with malformed neighbours "
                 "%s: %r (exit %d, stderr %r)" % (cmd, kinds, diff, b["exit"], b["err"]), **tags)
    out.key = [cmd, kinds, len(case["wf"]), any(m.get("same_path_as") is not None for m in case["mal"])]
    out.sample = {"cmd": cmd, "malformed": kinds, "wf": [e["orig"] for e in case["wf"]],
                  "fates": b["states"], "exit": b["exit"]}
    return out
