"""C16 -- trash-put's exit status tells the truth and arguments are handled independently."""
from hypothesis import strategies as st

from .. import gen, putcheck, runner, sandbox
from ..driver import Outcome

ID = "C16"
LEVEL = "exploration"
RULE = ("Hypothesis generates a list of 1-6 unrelated arguments mixing trashable entries of every "
        "kind, nonexistent paths, dot entries, names that are not valid UTF-8, entries whose "
        "trashing must fail by layout (volume whose .Trash-$uid is a file, home elsewhere) and "
        "duplicates, an order, and options -f / -i (one generated reply for all prompts) / -v. "
        "Metamorphic procedure: the whole list runs in world A; each argument runs ALONE in a "
        "fresh identical world B_i. Oracle: the per-argument outcome class (trashed / untouched / "
        "names nothing, from lstat snapshots) in A equals the one in B_i (a duplicate's second "
        "occurrence must behave as nonexistent); exit status 0 <=> every argument was trashed or "
        "legitimately skipped (nonexistent under -f, declined under -i); every failed argument is "
        "named by a line on stderr. Non-trivial: >= 3 arguments with >= 1 failing and >= 1 "
        "succeeding after it; distinct by (sequence of argument classes, option class).")
ASSUMPTIONS = ["arguments never alias, contain or point to each other (by construction)",
               "'naming' a non-UTF-8 argument = its backslash-escaped form appears on stderr"]

ARGK = ["file", "file", "tree", "link_dangling", "link_file", "nonexistent", "dot", "raw", "badvol", "dup", "dashname",
        "goodvol", "goodvol", "emptyarg"]


def examples(tier):
    return 4000 if tier == "quick" else 60000


@st.composite
def strategy_(draw, tier):
    n = draw(st.integers(1, 6))
    kinds = [draw(st.sampled_from(ARGK)) for _ in range(n)]
    names = []
    for i, k in enumerate(kinds):
        nm = draw(gen.names(long_ok=False, raw=(k == "raw")))
        if k == "raw" and "nonutf8" not in gen.name_class(nm):
            nm = nm + "\udcff"
        names.append("%d%s" % (i, nm))  # distinct by construction
    return {"kinds": kinds, "names": names,
            "dot": draw(st.sampled_from([".", "dotdir/sub/..", "dotdir/.", "./", "dotdir/./", "dotdir/sub/../"])),
            "mode": draw(st.sampled_from(["none", "none", "-f", "-i", "-v", "-fv", "td_rel", "td_abs"])),
            "reply": draw(st.sampled_from(["y", "n", "", "Y", "no", "yes"])),
            "uid": draw(st.sampled_from([1000, 0]))}


def strategy(tier):
    return strategy_(tier)


def build(case):
    home = "/home/u"
    vols = ["/bad", "/good"]
    uid = case["uid"]
    nodes = [{"p": home + "/cwd/dotdir/keep", "t": "f", "c": "keep"},
             {"p": home + "/cwd/dotdir/sub", "t": "d"}, {"p": home + "/w", "t": "d"},
             {"p": "/bad/.Trash-%d" % uid, "t": "f", "c": "not a directory"},
             {"p": "/bad/w", "t": "d"}, {"p": "/good/w", "t": "d"}, {"p": "/elsewhere/t", "t": "f", "c": "t"}]
    args, metas = [], []
    first_ok = None
    for k, nm in zip(case["kinds"], case["names"]):
        p = home + "/w/" + nm
        if k == "dot" and ("dashname" in case["kinds"] or case.get("mode") == "td_rel"):
            k = "nonexistent"   # ('.' would contain the dash-named entries / the relative trash dir of the working directory)
        if k == "dup":
            if first_ok is None:
                k = "file"
            else:
                args.append(first_ok)
                metas.append("dup")
                continue
        if k == "file":
            nodes.append({"p": p, "t": "f", "c": "c " + nm[:1]})
        elif k == "raw":
            nodes.append({"p": p, "t": "f", "c": "raw"})
        elif k == "tree":
            nodes.append({"p": p + "/in/ner", "t": "f", "c": "x"})
        elif k == "link_dangling":
            nodes.append({"p": p, "t": "l", "to": "nowhere"})
        elif k == "link_file":
            nodes.append({"p": p, "t": "l", "to": "/elsewhere/t"})
        elif k == "badvol":
            p = "/bad/w/" + nm
            nodes.append({"p": p, "t": "f", "c": "cannot be trashed"})
        elif k == "goodvol":
            p = "/good/w/" + nm
            nodes.append({"p": p, "t": "f", "c": "on the good volume"})
        elif k == "dashname":
            # an entry of the working directory whose NAME spells an option, given after '--'
            p = ["-f", "-v", "-rf", "--force", "-i", "--trash-dir", "-x", "--", "-", "--help"][
                (len(nm) + len(args)) % 10]
            if p in args:
                p = home + "/w/" + nm
            nodes.append({"p": (home + "/cwd/" + p) if not p.startswith("/") else p, "t": "f", "c": "dash"})
        elif k == "emptyarg":
            p = ""   # what a script passes for "$unset": names nothing
        elif k == "dot":
            p = case["dot"]
        if k in ("file", "tree", "link_dangling", "link_file") and first_ok is None:
            first_ok = p
        args.append(p)
        metas.append(k)
    spec = {"vols": vols, "nodes": nodes, "env": {"HOME": home}, "uid": uid,
            "cwd": home + "/cwd", "now": "2022-02-02T02:02:02"}
    return spec, args, metas


def run_one(spec, opts, files, stdin):
    sandbox.build_world(spec)
    before = sandbox.snapshot()
    res = runner.run(spec, "trash-put", opts + ["--"] + files, stdin=stdin)
    after = sandbox.snapshot()
    pa = putcheck.PutAnalysis(before, after, sandbox.read_bytes, spec["vols"])
    states = []
    done = {}
    where = {}
    for a in files:
        ident = putcheck.identity(before, a, spec["cwd"])
        if ident is None:
            states.append("N")
        elif ident[1] in done:
            states.append(done[ident[1]])  # duplicate: same entry, same snapshot verdict
        else:
            st_, info = pa.state_of(ident[1], exclude=[])
            states.append(st_)
            done[ident[1]] = st_
            if st_ == "T":
                where[a] = pa.new_payloads[info][0]
    pa.where = where
    return res, states, pa


def named_on_stderr(err, arg):
    esc = arg.encode("utf-8", "backslashreplace").decode("ascii", "backslashreplace")
    return any((arg in ln or esc in ln) for ln in err.split("\n") if "trashed in" not in ln) or \
        arg in err  # names with newlines span lines


def run_case(case):
    out = Outcome()
    spec, args, metas = build(case)
    mode = case["mode"]
    opts = {"none": [], "-f": ["-f"], "-i": ["-i"], "-v": ["-v"], "-fv": ["-f", "-v"],
            # an explicit trash directory, named relative to the working directory / absolutely
            "td_rel": ["--trash-dir", "rel trash"], "td_abs": ["--trash-dir", "/home/u/abs trash"]}[mode]
    stdin = (case["reply"] + "\n") * (len(args) + 2)
    force = "-f" in opts
    declined = mode == "-i" and not case["reply"].lower().startswith("y")
    tags = dict(mode=mode, has_nonutf8=("raw" in metas))
    resA, statesA, paA = run_one(spec, opts, args, stdin)
    seen = set()
    ok_all = True
    classes = []
    for i, (a, m) in enumerate(zip(args, metas)):
        is_dup = a in seen
        seen.add(a)
        # alone run; the second occurrence of a duplicate is compared with a nonexistent path
        alone_arg = a
        if is_dup and m != "dot" and statesA[args.index(a)] == "T":
            alone_arg = a + "-gone"  # the first occurrence took it away
        resB, statesB, paB = run_one(spec, opts, [alone_arg], stdin)
        if not is_dup and a in paA.where and alone_arg in paB.where and paA.where[a] != paB.where[alone_arg]:
            out.fail("trash_dir_differs", "argument %r (%s) went to %s in the list %r but to %s alone" % (
                a, m, paA.where[a], args, paB.where[alone_arg]), **dict(tags, arg=m))
        sa, sb = statesA[i], statesB[0]
        if is_dup:
            sa = "N" if sa in ("N", "T", "U") and statesA[args.index(a)] == "T" else sa
            # (snapshot view of a duplicate equals the first occurrence; judge it by exit/diagnostic)
        t = dict(tags, arg=m)
        if sa != sb and not is_dup:
            out.fail("outcome_differs", "argument %d %r (%s): state %s in the list %r, %s alone "
                     "(list exit %d, stderr %r)" % (i, a, m, sa, args, sb, resA.code,
                                                   resA.err[-300:]), **t)
        if sb == "X" or statesA[i] == "X":
            out.fail("not_conserved", "argument %r ended neither trashed nor untouched" % a, **t)
        existed = sb != "N"
        legit = (sb == "T") or (sb == "N" and force) or \
            (sb == "U" and declined and m != "dot" and existed)
        if m == "dot":
            legit = False
        # alone: exit status truth
        if (resB.code == 0) != legit:
            out.fail("exit_status_alone", "argument %r (%s) alone: state %s, exit %d (expected %s)" % (
                alone_arg, m, sb, resB.code, "0" if legit else "non-zero"), **t)
        if not legit:
            ok_all = False
            if not named_on_stderr(resA.err, a):
                out.fail("failure_not_named", "failed argument %r (%s) is not named on stderr of "
                         "the list run: %r" % (a, m, resA.err[-300:]), **t)
        classes.append(("ok" if legit else "fail") + ":" + m)
    if (resA.code == 0) != ok_all:
        out.fail("exit_status_list", "list %r: exit %d but all-ok is %s; stderr %r" % (
            args, resA.code, ok_all, resA.err[-300:]), **tags)
    si, sp = paA.leftovers()
    if si or sp:
        out.fail("leftovers", "stray infos %s orphan payloads %s" % (si[:2], sp[:2]), **tags)
    out.classes += ["mode:" + mode, "n:%d" % len(args)] + ["arg:" + c for c in classes]
    fails = [i for i, c in enumerate(classes) if c.startswith("fail")]
    if len(args) >= 3 and fails and any(c.startswith("ok") for c in classes[fails[0] + 1:]):
        out.key = [classes, mode]
        out.sample = {"argv": opts + ["--"] + args, "classes": classes, "exit": resA.code}
    return out
