"""C07 -- trash-put picks the trash dir the spec prescribes, on the file's own volume."""
from hypothesis import strategies as st

from .. import gen, oracle, putcheck, runner, sandbox
from ..driver import Outcome
from ..sandbox import subtree

ID = "C07"
LEVEL = "exploration"
RULE = ("Hypothesis generates a point of the layout lattice: mount table (home on / or on its own "
        "volume, 0-3 extra volumes, nested), state of $topdir/.Trash {absent, sticky, non-sticky, "
        "symlink->sticky, symlink->non-sticky, file, setgid, setuid, a sticky MOUNT POINT}, of "
        "$topdir/.Trash/$uid {absent, dir, file, symlink to another volume, symlink within the volume}, of "
        "$topdir/.Trash-$uid {absent, dir, file, symlink to another volume, a mount point}, home trash {absent, "
        "existing, symlink to another volume, a mount point}, HOME reached through a symlink that may cross volumes, XDG_DATA_HOME {unset, empty, custom, on another "
        "volume}, HOME set/unset, uid, umask, options {none, --trash-dir on/off the file's volume, "
        "--home-fallback x TRASH_ENABLE_HOME_FALLBACK}, and an entry reached directly, through a "
        "symlinked parent that crosses volumes, or as 'link/' to a directory on another volume. "
        "Oracle = an independent decision table written from the spec text: the one directory "
        "that must receive the entry, or 'must fail, untouched'. Checked: the directory that "
        "gained the pair == table; created Trash / files / info / .Trash-$uid / .Trash/$uid "
        "directories have mode 0700; nothing read from stdin; the payload kept its inode (rename, "
        "no copy) unless the fallback is enabled both ways. Non-trivial: >= 2 volumes or a "
        "non-default .Trash state or a symlink on the path; distinct by the lattice point class.")
ASSUMPTIONS = ["volume of a path = deepest mount point above its realpath (own resolver)",
               "worlds in which a candidate directory cannot be created for other reasons are not generated"]


def examples(tier):
    return 8000 if tier == "quick" else 200000


def grid(tier):
    """thorough: the whole layout lattice (for one name / kind / umask), enumerated exhaustively"""
    if tier != "thorough":
        return
    import itertools
    for lay in sorted(gen.LAYOUTS):
        vols, _home = gen.LAYOUTS[lay]
        for fvol in ["/"] + vols:
            for top, us, alt, ht, xdg, opt, reach in itertools.product(
                    gen.TOP_STATES + ["mount_sticky"], ["absent", "dir", "file", "link_other"],
                    ["absent", "dir", "file", "link_other"],
                    ["absent", "exists", "link_other"], ["unset", "empty", "custom", "othervol"],
                    ["none", "trash_dir_same", "trash_dir_other", "trash_dir_link", "fallback_both",
                     "fallback_flag_only", "fallback_env_only"],
                    ["direct", "rel", "via_cross_link", "link_slash"]):
                if us != "absent" and top in ("absent", "file"):
                    continue
                yield {"layout": lay, "uid": 1000, "fvol": fvol, "top": top, "uid_state": us,
                       "alt": alt, "hometrash": ht, "xdg": xdg, "home_set": True, "opt": opt,
                       "reach": reach, "kind": "file", "name": "entry", "umask": 0o022, "subdir": "w"}


EXHAUSTIVE_GRID = True


@st.composite
def strategy_(draw, tier):
    lay = draw(st.sampled_from(sorted(gen.LAYOUTS)))
    vols, home = gen.LAYOUTS[lay]
    allv = ["/"] + vols
    fvol = draw(st.sampled_from(allv))
    return {"layout": lay, "uid": draw(st.sampled_from([1000, 0, 12345])),
            "fvol": fvol,
            "top": draw(st.sampled_from(gen.TOP_STATES + ["sticky", "mount_sticky"])),
            "uid_state": draw(st.sampled_from(["absent", "absent", "dir", "file", "link_other", "link_same"])),
            "alt": draw(st.sampled_from(["absent", "absent", "dir", "file", "link_other", "mount"])),
            "hometrash": draw(st.sampled_from(["absent", "absent", "exists", "link_other", "mount"])),
            "xdg": draw(st.sampled_from(["unset", "unset", "unset", "empty", "custom", "othervol", "custom_slash"])),
            "home_slash": draw(st.integers(0, 5)) == 0,
            # $HOME names the home directory through a symlink (/hl -> /home) that may cross volumes:
            # the volume of a home trash that does not exist yet is the volume it WILL be created on
            "home_link": draw(st.integers(0, 4)) == 0,
            "home_set": draw(st.integers(0, 9)) != 0,
            "opt": draw(st.sampled_from(["none", "none", "none", "trash_dir_same", "trash_dir_other",
                                         "trash_dir_link", "fallback_both", "fallback_flag_only",
                                         "fallback_env_only"])),
            "reach": draw(st.sampled_from(["direct", "direct", "rel", "via_cross_link", "link_slash"])),
            "kind": draw(st.sampled_from(["file", "tree", "link_dangling"])),
            "name": draw(gen.names(long_ok=False)),
            "umask": draw(st.sampled_from([0o022, 0o077, 0, 0o027])),
            "subdir": draw(st.sampled_from(["w", "w/deep/er"])),
            # a second file argument in the SAME invocation, living on another volume (state kept
            # between arguments must not leak the first argument's verdicts to the second)
            "companion": draw(st.sampled_from(["none", "none", "before", "after"]))}


def strategy(tier):
    return strategy_(tier)


def vol_of(snap, vols, path):
    """volume of realpath(path); path may not exist entirely (resolve the existing prefix)"""
    comps = oracle.split(path)
    cur = "/"
    for i in range(len(comps)):
        nxt = oracle.resolve(snap, cur.rstrip("/") + "/" + comps[i])
        if nxt is None or nxt not in snap:
            # remaining components do not exist: they would be created below `cur`
            return oracle.volume_of(vols, cur)
        cur = nxt
    return oracle.volume_of(vols, cur)


def decide(snap, vols, env, uid, fvol, opt_dir, fallback_both):
    """independent decision table -> (trash dir | None, via_fallback)"""
    def usable_dir(p):
        n = snap.get(oracle.resolve(snap, p) or p)
        return n is None or n.t == "d"
    if opt_dir is not None:
        if vol_of(snap, vols, opt_dir) == fvol and usable_dir(opt_dir):
            return opt_dir, False
        return None, False
    home = None
    if env.get("XDG_DATA_HOME"):
        home = env["XDG_DATA_HOME"] + "/Trash"
    elif env.get("HOME") is not None:
        home = env["HOME"] + "/.local/share/Trash"
    if home is not None:
        import posixpath
        home = posixpath.normpath(home)
    if home is not None and vol_of(snap, vols, home) == fvol and usable_dir(home):
        return home, False
    top = fvol.rstrip("/") + "/.Trash"
    n = snap.get(top)
    if n is not None and n.t == "d" and (n.mode & 0o1000):
        d = top + "/%d" % uid
        m = snap.get(d)
        if (m is None or m.t == "d" or (m.t == "l" and usable_dir(d))) and vol_of(snap, vols, d) == fvol:
            return d, False
    alt = fvol.rstrip("/") + "/.Trash-%d" % uid
    if usable_dir(alt) and vol_of(snap, vols, alt) == fvol:
        return alt, False
    if fallback_both and home is not None and usable_dir(home):
        return home, True
    return None, False


def run_case(case):
    out = Outcome()
    vols, home = gen.LAYOUTS[case["layout"]]
    uid = case["uid"]
    fvol = case["fvol"]
    allv = ["/"] + vols
    other = [v for v in allv if v != fvol]
    env = {}
    nodes = []
    if case["home_set"]:
        env["HOME"] = home + ("/" if case.get("home_slash") else "")
        if case.get("home_link"):
            nodes.append({"p": home, "t": "d"})     # (the link must lead somewhere)
            nodes.append({"p": "/hl", "t": "l", "to": "/home"})
            env["HOME"] = "/hl/u" + ("/" if case.get("home_slash") else "")
    xdg = case["xdg"]
    if xdg == "empty":
        env["XDG_DATA_HOME"] = ""
    elif xdg == "custom":
        env["XDG_DATA_HOME"] = home + "/my xdg"
    elif xdg == "custom_slash":
        env["XDG_DATA_HOME"] = home + "/my xdg/"
    elif xdg == "othervol" and other:
        env["XDG_DATA_HOME"] = other[0].rstrip("/") + "/xdg-here"
    ht = None
    if env.get("XDG_DATA_HOME"):
        ht = env["XDG_DATA_HOME"].rstrip("/") + "/Trash"
    elif "HOME" in env:
        ht = home + "/.local/share/Trash"
    if ht is not None:
        if case["hometrash"] == "exists":
            nodes.append({"p": ht + "/files", "t": "d", "m": 0o700})
            nodes.append({"p": ht + "/info", "t": "d", "m": 0o700})
        elif case["hometrash"] == "mount":
            # a file system mounted exactly at the home trash directory: the directory exists, but
            # it is the top of ANOTHER volume
            vols = vols + [ht]
            nodes.append({"p": ht, "t": "d", "m": 0o700})
        elif case["hometrash"] == "link_other":
            tgt = (other[0] if other and oracle.volume_of(vols, ht) != other[0] else
                   (other[-1] if other else "/")).rstrip("/") + "/real-home-trash"
            nodes.append({"p": tgt, "t": "d", "m": 0o700})
            nodes.append({"p": ht, "t": "l", "to": tgt})
    fv = fvol.rstrip("/")
    if case["top"] == "mount_sticky":
        # $topdir/.Trash passes every check of the spec but is itself a mount point: what lies
        # below it is on ANOTHER volume, so $topdir/.Trash/$uid is not on the file's volume
        vols = vols + [fv + "/.Trash"]
        nodes.append({"p": fv + "/.Trash", "t": "d", "m": 0o1777})
    else:
        nodes += gen.topdir_nodes(fvol, uid, case["top"], "absent")
    if case["top"] in ("sticky", "nonsticky", "link_sticky", "link_nonsticky", "setgid", "setuid",
                       "mount_sticky"):
        basep = fv + ("/.real-trash" if case["top"].startswith("link") else "/.Trash")
        if case["uid_state"] == "dir":
            nodes.append({"p": basep + "/%d" % uid, "t": "d", "m": 0o700})
        elif case["uid_state"] == "file":
            nodes.append({"p": basep + "/%d" % uid, "t": "f", "c": "x"})
        elif case["uid_state"] in ("link_other", "link_same"):
            # $topdir/.Trash/$uid relocated by a symbolic link (to another volume / within this one)
            tgt = ((other[0] if other else "/elsewhere") if case["uid_state"] == "link_other"
                   else fv).rstrip("/") + "/uid-dir-target"
            nodes.append({"p": tgt, "t": "d", "m": 0o700})
            nodes.append({"p": basep + "/%d" % uid, "t": "l", "to": tgt})
    if case["alt"] == "dir":
        nodes.append({"p": fv + "/.Trash-%d" % uid, "t": "d", "m": 0o700})
    elif case["alt"] == "file":
        nodes.append({"p": fv + "/.Trash-%d" % uid, "t": "f", "c": "x"})
    elif case["alt"] == "mount":
        vols = vols + [fv + "/.Trash-%d" % uid]
        nodes.append({"p": fv + "/.Trash-%d" % uid, "t": "d", "m": 0o700})
    elif case["alt"] == "link_other":
        tgt = (other[0] if other else "/elsewhere").rstrip("/") + "/alt-target"
        nodes.append({"p": tgt, "t": "d", "m": 0o700})
        nodes.append({"p": fv + "/.Trash-%d" % uid, "t": "l", "to": tgt})
    D = fv + "/" + case["subdir"]
    if fvol == oracle.volume_of(vols, home):
        D = home + "/" + case["subdir"]
    nodes.append({"p": D, "t": "d"})
    e = D + "/" + case["name"]
    reach = case["reach"]
    kind = case["kind"]
    far = (other[0] if other else "/").rstrip("/") + "/far"
    nodes.append({"p": far + "/inside", "t": "f", "c": "far"})
    if reach == "link_slash":
        kind = "link_dir"
        nodes.append({"p": e, "t": "l", "to": far})
    elif kind == "file":
        nodes.append({"p": e, "t": "f", "c": "content"})
    elif kind == "tree":
        nodes.append({"p": e + "/x/y", "t": "f", "c": "y"})
    else:
        nodes.append({"p": e, "t": "l", "to": "nowhere"})
    cwd = D
    arg = e
    if reach == "rel":
        arg = case["name"]
    elif reach == "via_cross_link":
        nodes.append({"p": far + "/xl", "t": "l", "to": D})
        arg = far + "/xl/" + case["name"]
    elif reach == "link_slash":
        arg = e + "/"
    opts = []
    opt_dir = None
    o = case["opt"]
    if o == "trash_dir_same":
        opt_dir = fv + "/custom trash"
    elif o == "trash_dir_other":
        opt_dir = (other[0] if other else "/").rstrip("/") + "/custom trash"
        if not other:
            o = "trash_dir_same"
    elif o == "trash_dir_link":
        tgt = (other[0] if other else "/").rstrip("/") + "/tdl-target"
        nodes.append({"p": tgt, "t": "d"})
        nodes.append({"p": fv + "/tdl", "t": "l", "to": tgt})
        opt_dir = fv + "/tdl"
    if opt_dir:
        opts += ["--trash-dir", opt_dir]
    if o in ("fallback_both", "fallback_flag_only"):
        opts.append("--home-fallback")
    if o in ("fallback_both", "fallback_env_only"):
        env["TRASH_ENABLE_HOME_FALLBACK"] = "1"
    comp = None
    argv_files = [arg]
    if case.get("companion", "none") != "none" and other:
        cv = other[-1].rstrip("/")
        cdir = (home if oracle.volume_of(vols, home) == (cv or "/") else cv) + "/companion dir"
        nodes.append({"p": cdir, "t": "d"})
        comp = cdir + "/companion-" + case["name"]
        nodes.append({"p": comp, "t": "f", "c": "companion"})
        argv_files = [comp, arg] if case["companion"] == "before" else [arg, comp]
    spec = {"vols": vols, "nodes": nodes, "env": env, "uid": uid, "cwd": cwd,
            "umask": case["umask"], "now": "2022-02-02T02:02:02"}
    sandbox.build_world(spec)
    before = sandbox.snapshot()
    res = runner.run(spec, "trash-put", opts + ["--"] + argv_files, stdin="y\ny\n")
    after = sandbox.snapshot()
    real_fvol = vol_of(before, vols, D)
    want, via_fb = decide(before, vols, env, uid, real_fvol, opt_dir, o == "fallback_both")
    tags = dict(reach=reach, opt=o, top=case["top"], xdg=xdg)
    pa = putcheck.PutAnalysis(before, after, sandbox.read_bytes, vols)
    state, info = pa.state_of(e, check_path=False)
    got = None
    if state == "T":
        got = pa.new_payloads[info][0]
    cls = "trashed" if want else "must_fail"
    out.classes += ["home_link:%s" % bool(case.get("home_link")),
                    "layout:" + case["layout"], "top:" + case["top"], "alt:" + case["alt"],
                    "opt:" + o, "reach:" + reach, "xdg:" + xdg, "expect:" + cls,
                    "hometrash:" + case["hometrash"], "exit:%d" % res.code]
    if state == "X":
        out.fail("not_conserved", "entry %s: %s (exit %d, stderr %r)" % (e, info, res.code,
                                                                          res.err[-300:]), **tags)
    elif want is None:
        if state != "U" or (res.code == 0 and comp is None):
            out.fail("should_have_failed", "no trash directory is admissible (file volume %s) but "
                     "state is %s in %s, exit %d" % (real_fvol, state, got, res.code), **tags)
    else:
        wreal = oracle.resolve(before, want) or want
        greal = got and (oracle.resolve(after, got) or got)
        if state != "T":
            out.fail("not_trashed", "entry should go to %s but was not trashed: exit %d, stderr %r" % (
                want, res.code, res.err[-400:]), **tags)
        elif got != want and greal != (oracle.resolve(after, want) or want):
            out.fail("wrong_dir", "entry on volume %s went to %s, the spec prescribes %s" % (
                real_fvol, got, want), **tags)
        else:
            # modes of created directories
            for d in (got, got + "/files", got + "/info"):
                if d not in before and d in after and after[d].t == "d" and after[d].mode != 0o700:
                    out.fail("mode", "%s created with mode %o" % (d, after[d].mode), **tags)
            # same volume / rename unless fallback
            gv = vol_of(after, vols, got)
            if not via_fb:
                if gv != real_fvol:
                    out.fail("cross_volume", "trash dir %s is on %s, the file on %s" % (got, gv, real_fvol), **tags)
                if before[e].ino != after[info].ino or before[e].dev != after[info].dev:
                    out.fail("copied_not_renamed", "payload is a copy (inode changed)", **tags)
    if comp is not None:
        # the companion is judged by the same table, for ITS volume
        cvol = vol_of(before, vols, comp.rsplit("/", 1)[0])
        cwant, cfb = decide(before, vols, env, uid, cvol, opt_dir, o == "fallback_both")
        cstate, cinfo = pa.state_of(comp, check_path=False)
        ctags = dict(tags, companion=case["companion"])
        if cstate == "X":
            out.fail("companion_not_conserved", "companion %s: %s" % (comp, cinfo), **ctags)
        elif cwant is None:
            if cstate != "U":
                out.fail("companion_should_have_failed", "companion %s (volume %s) has no admissible "
                         "trash dir but state is %s" % (comp, cvol, cstate), **ctags)
        elif cstate != "T":
            out.fail("companion_not_trashed", "companion %s should go to %s: exit %d stderr %r" % (
                comp, cwant, res.code, res.err[-300:]), **ctags)
        else:
            cgot = pa.new_payloads[cinfo][0]
            if cgot != cwant and (oracle.resolve(after, cgot) or cgot) != (oracle.resolve(after, cwant) or cwant):
                out.fail("companion_wrong_dir", "two arguments in one invocation: %s (volume %s) went to "
                         "%s, the spec prescribes %s" % (comp, cvol, cgot, cwant), **ctags)
            elif not cfb and (before[comp].ino != after[cinfo].ino or before[comp].dev != after[cinfo].dev):
                out.fail("companion_copied", "companion payload is a copy (inode changed)", **ctags)
        out.classes.append("companion:" + case["companion"])
    if res.stdin_used:
        out.fail("prompted", "trash-put read %d bytes from stdin" % res.stdin_used, **tags)
    si, sp = pa.leftovers()
    if si or sp:
        out.fail("leftovers", "stray infos %s orphan payloads %s" % (si[:2], sp[:2]), **tags)
    if len(vols) >= 1 or case["top"] != "absent" or reach in ("via_cross_link", "link_slash"):
        out.key = [case["layout"], fvol, case["top"], case["uid_state"], case["alt"], case["hometrash"],
                   xdg, case["home_set"], o, reach, cls, case.get("companion", "none"),
                   bool(case.get("home_link"))]
        out.sample = {"layout": case["layout"], "file": e, "arg": arg, "opts": opts, "env": env,
                      "expected": want, "got": got, "exit": res.code}
    return out
