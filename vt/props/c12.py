"""C12 -- trash-rm removes exactly the entries whose original name matches the pattern."""
from hypothesis import strategies as st

from .. import gen, oracle, runner, sandbox
from ..driver import Outcome
from ..sandbox import subtree

ID = "C12"
LEVEL = "exploration"
RULE = ("Hypothesis generates a pattern from a grammar (literals incl. spaces, newlines, non-ASCII; "
        "'*', '?', '[set]', '[!set]', ranges, optional leading '/' for full-path mode) and a set of "
        "3-9 trashed entries whose names are DERIVED from the pattern (instances that match, near "
        "misses: one char changed / added / case-swapped, same base name in other directories and "
        "volumes) spread over home and $topdir trash dirs; real trash-rm PATTERN runs. Oracle: own "
        "backtracking matcher (no fnmatch/re), subject = base name, or full original path when the "
        "pattern starts with '/'; removed set == matching set, removed entries lose info and "
        "payload, all others identical. Non-trivial: pattern has a metacharacter and the set has "
        "both matching and non-matching names; distinct by (pattern shape, #match, #nonmatch, mode).")
ASSUMPTIONS = ["patterns with ill-defined shell meaning (unterminated '[', ']' first in a set, "
               "reversed ranges, backslash, empty pattern) are not generated"]

LIT = list("abAB1._- ~") + ["é", "\n", "%", "+", "=", "中", "~"]


def examples(tier):
    return 12000 if tier == "quick" else 250000


@st.composite
def piece(draw):
    k = draw(st.integers(0, 9))
    if k <= 4:
        return ("lit", draw(st.sampled_from(LIT)))
    if k == 5:
        return ("star",)
    if k == 6:
        return ("q",)
    if k == 7:
        chars = draw(st.lists(st.sampled_from(list("abcABC123xyz\u00e9\u00e8\u4e2d")), min_size=1, max_size=3, unique=True))
        return ("set", False, "".join(chars))
    if k == 8:
        chars = draw(st.lists(st.sampled_from(list("abcABC123xyz")), min_size=1, max_size=3, unique=True))
        return ("set", True, "".join(chars))
    lo, hi = sorted(draw(st.lists(st.sampled_from(list("abcdef")), min_size=2, max_size=2)))
    return ("range", draw(st.booleans()), lo, hi)


def render(pieces):
    out = []
    for p in pieces:
        if p[0] == "lit":
            out.append("[" + p[1] + "]" if p[1] in "*?[" else p[1])
        elif p[0] == "star":
            out.append("*")
        elif p[0] == "q":
            out.append("?")
        elif p[0] == "set":
            out.append("[" + ("!" if p[1] else "") + p[2] + "]")
        else:
            out.append("[" + ("!" if p[1] else "") + p[2] + "-" + p[3] + "]")
    return "".join(out)


@st.composite
def instance(draw, pieces, mutate):
    """a name built to match the pattern (mutate=None) or to just miss it"""
    s = []
    # (multi-byte characters too: '?' and a bracket expression consume one CHARACTER)
    others = "qQ7#\u00e9\u65e5"
    for p in pieces:
        if p[0] == "lit":
            s.append(p[1])
        elif p[0] == "star":
            s.append(draw(st.text(alphabet="ab. Z\u00e9\u4e2d", max_size=3)))
        elif p[0] == "q":
            s.append(draw(st.sampled_from(list("ab.Z \u00e9\u00ef\u4e2d\U0001f600"))))
        elif p[0] == "set":
            s.append(draw(st.sampled_from(list(others))) if p[1] else draw(st.sampled_from(list(p[2]))))
        else:
            inside = [chr(c) for c in range(ord(p[2]), ord(p[3]) + 1)]
            s.append(draw(st.sampled_from(list(others))) if p[1] else draw(st.sampled_from(inside)))
    name = "".join(s)
    if mutate == "case":
        name = name.swapcase()
    elif mutate == "extra":
        name = name + draw(st.sampled_from(["x", " ", "_1", ".bak"]))
    elif mutate == "prefix":
        name = draw(st.sampled_from(["x", ".", "_"])) + name
    elif mutate == "drop" and name:
        i = draw(st.integers(0, len(name) - 1))
        name = name[:i] + name[i + 1:]
    elif mutate == "change" and name:
        i = draw(st.integers(0, len(name) - 1))
        name = name[:i] + draw(st.sampled_from(list("qQ7#"))) + name[i + 1:]
    name = name.replace("/", "_").replace("\0", "_")
    if name in ("", ".", ".."):
        name = "n" + name
    return name


@st.composite
def strategy_(draw, tier):
    tw = gen.draw_layout(draw)
    tds = gen.draw_tdirs(draw, tw)
    pieces = draw(st.lists(piece(), min_size=1, max_size=6))
    fullpath = draw(st.integers(0, 3)) == 0
    ents = []
    dirs_all = sorted({d for td, b in tds for d in gen.orig_dirs(tw, b)})
    prefix = ""
    if fullpath:
        pd = draw(st.sampled_from(dirs_all))
        prefix = draw(st.sampled_from([pd + "/", "/*/", "/*", pd.rsplit("/", 1)[0] + "/*/"]))
    pattern = prefix.replace("[", "[[]") + render(pieces) if fullpath else render(pieces)
    if fullpath:
        pattern = prefix + render(pieces)
    elif draw(st.integers(0, 7)) == 0:
        # a '/' that is not leading: still base-name mode, so such a pattern matches nothing
        pattern = draw(st.sampled_from(["*/", "w/", "?/", "*/*/"])) + pattern
    for i in range(draw(st.integers(3, 9))):
        tdir, base = draw(st.sampled_from(tds))
        mut = draw(st.sampled_from([None, None, None, "case", "extra", "prefix", "drop", "change",
                                    "random", "as_parent"]))
        name = draw(gen.names(long_ok=False)) if mut == "random" else draw(
            instance(pieces, None if mut == "as_parent" else mut))
        d = draw(st.sampled_from(gen.orig_dirs(tw, base)))
        if mut == "as_parent":
            # the matching name is a DIRECTORY on the way to the entry; the entry's own base name
            # is something else ('*' and '?' of fnmatch also match '/', so a matcher applied to
            # more than the base name would swallow the rest of the path)
            d = d + "/" + name
            name = draw(st.sampled_from(["inner", "summary.txt", "x"]))
        ents.append(dict(tdir=tdir, base=base, orig=d + "/" + name,
                         kind=draw(st.sampled_from(["file", "tree", "link"])), mut=mut))
    shape = "".join({"lit": "l", "star": "*", "q": "?", "set": "s", "range": "r"}[p[0]] for p in pieces)
    return {"layout": tw.layout, "uid": tw.uid, "pattern": pattern, "ents": ents, "shape": shape,
            "fullpath": fullpath, "tv": draw(st.sampled_from([None, None, "plain", "empties"]))}


def strategy(tier):
    return strategy_(tier)


def run_case(case):
    out = Outcome()
    vols, home = gen.LAYOUTS[case["layout"]]
    tw = gen.TrashWorld(vols, home, case["uid"])
    es = []
    for i, e in enumerate(case["ents"]):
        es.append(tw.add(e["tdir"], e["base"], e["orig"], gen.date_str(1000 + i), kind=e["kind"],
                         content="c%d" % i, link_to="/nonexistent"))
    spec = tw.spec(cwd="/")
    sandbox.build_world(spec)
    before = sandbox.snapshot()
    pat = case["pattern"]
    env = {}
    if case.get("tv"):
        allv = ["/"] + list(vols)
        env["TRASH_VOLUMES"] = ":".join(allv) if case["tv"] == "plain" else "::" + "::".join(allv) + ":"
    res = runner.run(spec, "trash-rm", [pat], env=env)  # trash-rm takes argv[1] verbatim
    after = sandbox.snapshot()
    nmatch = nnon = 0
    tags = dict(mode="full" if pat.startswith("/") else "base")
    for e in es:
        subject = e["orig"] if pat.startswith("/") else e["orig"].rsplit("/", 1)[-1]
        m = oracle.glob_match(pat, subject)
        nmatch += m
        nnon += not m
        info_there, pay_there = e["info"] in after, e["payload"] in after
        if m and (info_there or pay_there):
            out.fail("match_not_removed", "pattern %r matches %r but the entry is still there "
                     "(info %s, payload %s; exit %d stderr %r)" % (
                         pat, subject, info_there, pay_there, res.code, res.err[-200:]), **tags)
        if not m:
            same = info_there and sandbox.sig(after[e["info"]]) == sandbox.sig(before[e["info"]]) \
                and subtree(after, e["payload"]) == subtree(before, e["payload"])
            if not same:
                out.fail("nonmatch_removed", "pattern %r does not match %r but the entry was "
                         "removed or changed" % (pat, subject), **tags)
    for p, n in before.items():
        if "/files/" in p or "/info/" in p or p.endswith("/files") or p.endswith("/info"):
            continue
        if p not in after or sandbox.sig(after[p]) != sandbox.sig(n):
            out.fail("frame", "%s changed or disappeared" % p, **tags)
            break
    meta = any(c in case["shape"] for c in "*?sr")
    out.classes += ["mode:" + tags["mode"], "meta:%s" % meta, "exit:%d" % res.code,
                    "matches:%d" % min(nmatch, 3)]
    if meta and nmatch and nnon:
        out.key = [case["shape"], min(nmatch, 4), min(nnon, 4), tags["mode"]]
        out.sample = {"pattern": pat, "names": [e["orig"] for e in es], "matching": nmatch}
    return out
