"""C08 -- an insecure shared $topdir/.Trash is never used, for writing, reading or purging."""
from hypothesis import strategies as st

from .. import gen, runner, sandbox
from ..driver import Outcome
from ..sandbox import subtree

ID = "C08"
LEVEL = "exploration"
EXHAUSTIVE_GRID = True
RULE = ("Grid, enumerated exhaustively on every run: command {put, list, restore, empty, rm} x "
        "state of $topdir/.Trash {sticky dir (positive control), non-sticky dir, symlink->sticky "
        "dir, symlink->non-sticky dir, regular file, absent} x second volume state, with a "
        "populated (or absent, or half made) .Trash/$uid and a populated .Trash-$uid as second "
        "control; plus a Hypothesis campaign with generated names, uid, states per volume. "
        "Oracle: for insecure states the snapshot of the directory behind .Trash (the $uid directory included) is "
        "identical before/after every command (restore is answered with every offered index), "
        "list/restore print nothing stored there, put lands in .Trash-$uid, trash-list names "
        "the skipped directory on stderr; for the sticky control all five commands do use it. "
        "Non-trivial: .Trash exists in an insecure state with a populated $uid directory; "
        "distinct by (command, state, second state, uid, name class).")
ASSUMPTIONS = []

CMDS = ["put", "list", "restore", "empty", "rm"]
INSECURE = ("nonsticky", "link_sticky", "link_nonsticky", "setgid", "setuid")


def examples(tier):
    return 2500 if tier == "quick" else 60000


def cell(cmd, state, state2, uid=1000, name="secret", name2="other", ustate="full", rootvol=False):
    return {"cmd": cmd, "state": state, "state2": state2, "uid": uid, "name": name, "name2": name2,
            "ustate": ustate, "rootvol": rootvol}


def grid(tier):
    g = [cell(c, s, s2) for c in CMDS for s in gen.TOP_STATES
         for s2 in ("none", "sticky", "nonsticky", "link_sticky")]
    # .Trash/$uid absent or half made: nothing may be CREATED behind an insecure .Trash either
    g += [cell(c, s, s2, ustate=u) for c in CMDS for s in gen.TOP_STATES
          for s2 in ("none", "nonsticky") for u in ("absent", "partial")]
    # the volume under test is the ROOT volume ('/' + '.Trash'): its top directory ends with a slash
    g += [cell(c, s, s2, rootvol=True) for c in CMDS for s in gen.TOP_STATES for s2 in ("none", "nonsticky")]
    return g


@st.composite
def strategy_(draw, tier):
    return cell(draw(st.sampled_from(CMDS)), draw(st.sampled_from(gen.TOP_STATES)),
                draw(st.sampled_from(["none"] + gen.TOP_STATES)),
                draw(st.sampled_from([1000, 0, 501, 65534])),
                draw(gen.names(long_ok=False)), draw(gen.names(simple=True)),
                draw(st.sampled_from(["full", "full", "absent", "partial"])),
                draw(st.integers(0, 4)) == 0)


def strategy(tier):
    return strategy_(tier)


def uid_dir(vol, state, uid):
    """real directory that $vol/.Trash/$uid denotes (None if it cannot exist)"""
    if state in ("sticky", "nonsticky", "setgid", "setuid"):
        return vol + "/.Trash/%d" % uid
    if state.startswith("link"):
        return vol + "/.real-trash/%d" % uid
    return None


def top_dir(vol, state):
    """real directory that $vol/.Trash denotes (None if there is none)"""
    if state in ("sticky", "nonsticky", "setgid", "setuid"):
        return vol + "/.Trash"
    if state.startswith("link"):
        return vol + "/.real-trash"
    return None


def populate(tw, vol, state, uid, name, ustate="full"):
    """write .Trash in `state` on vol, a pair in .Trash/$uid (entry A) and one in .Trash-$uid (B)"""
    tw.nodes += gen.topdir_nodes(vol, uid, state, "absent")
    tw.nodes.append({"p": vol + "/w", "t": "d"})
    a = None
    ud = uid_dir(vol, state, uid)
    if ud is not None and ustate == "partial":
        tw.nodes.append({"p": ud, "t": "d", "m": 0o700})
        tw.nodes.append({"p": ud + "/info", "t": "d", "m": 0o700})
    elif ud is not None and ustate == "full":
        from ..oracle import make_info
        from ..sandbox import fsenc
        tw.nodes.append({"p": ud, "t": "d", "m": 0o700})
        tw.nodes.append({"p": ud + "/info/%s.trashinfo" % name, "t": "b", "m": 0o600,
                         "b": list(make_info(fsenc("w/" + name), "2020-05-05T05:05:05"))})
        tw.nodes.append({"p": ud + "/files/" + name, "t": "f", "c": "A-" + vol})
        a = dict(orig=vol + "/w/" + name, date="2020-05-05T05:05:05", dir=ud)
    b = tw.add(vol + "/.Trash-%d" % uid, vol or "/", vol + "/w/zz-b-" + name, "2020-06-06T06:06:06",
               content="B-" + vol)
    return a, b


def run_case(case):
    out = Outcome()
    uid = case["uid"]
    vols = ["/vol"] + (["/vol2"] if case["state2"] != "none" else [])
    tw = gen.TrashWorld(vols, "/home/u", uid)
    us = case.get("ustate", "full")
    V1 = "" if case.get("rootvol") else "/vol"     # ('' + '/.Trash' = the root volume's)
    a1, b1 = populate(tw, V1, case["state"], uid, case["name"], us)
    a2 = b2 = None
    if case["state2"] != "none":
        a2, b2 = populate(tw, "/vol2", case["state2"], uid, case["name2"], us)
    tw.nodes.append({"p": V1 + "/w/new-file", "t": "f", "c": "to be trashed"})
    if case["state2"] != "none":
        tw.nodes.append({"p": "/vol2/w/pre-file", "t": "f", "c": "trashed first"})
    spec = tw.spec(cwd=V1 + "/w")
    sandbox.build_world(spec)
    before = sandbox.snapshot()
    cmd = case["cmd"]
    tags = dict(cmd=cmd, state=case["state"])
    insecure = case["state"] in INSECURE
    results = []
    if cmd == "put":
        # (with a second volume, a file there is trashed FIRST in the same invocation: verdicts
        # about one volume's .Trash must not be reused for another volume)
        pre = ["/vol2/w/pre-file"] if case["state2"] != "none" else []
        results.append(runner.run(spec, "trash-put", pre + [V1 + "/w/new-file"]))
    elif cmd == "list":
        results.append(runner.run(spec, "trash-list", []))
    elif cmd == "empty":
        results.append(runner.run(spec, "trash-empty", []))
    elif cmd == "rm":
        results.append(runner.run(spec, "trash-rm", ["*"]))
    elif cmd == "restore":
        r0 = runner.run(spec, "trash-restore", ["/"], stdin="")
        results.append(r0)
        n = sum(1 for ln in r0.out.split("\n") if ln[:4].strip().isdigit() and len(ln) > 5)
        for i in range(n):
            sandbox.build_world(spec)
            results.append(runner.run(spec, "trash-restore", ["/"], stdin="%d\n" % i))
            mid = sandbox.snapshot()
            check_untouched(out, case, before, mid, tags, "restore index %d" % i)
        sandbox.build_world(spec)
        results.append(runner.run(spec, "trash-restore", ["/"], stdin="0-%d\n" % max(n - 1, 0)))
    after = sandbox.snapshot()
    res = results[0]
    out.classes += ["cmd:" + cmd, "state:" + case["state"], "state2:" + case["state2"],
                    "exit:%d" % res.code, "uid_dir:" + us]
    check_untouched(out, case, before, after, tags, cmd)
    for (vol, state, a, b) in ((V1, case["state"], a1, b1), ("/vol2", case["state2"], a2, b2)):
        if state == "none" or b is None:
            continue
        t = dict(cmd=cmd, state=state)
        bad = state in INSECURE
        aline = None if a is None else "%s %s" % (a["date"].replace("T", " "), a["orig"])
        if cmd == "list":
            lines = res.out.split("\n")
            if gen.list_line(b) not in res.out:
                out.fail("control_not_listed", "entry in %s/.Trash-%d not listed: %r (stderr %r)" % (
                    vol, uid, res.out[:300], res.err[-200:]), **t)
            if a is not None:
                if bad and aline in res.out:
                    out.fail("insecure_listed", "trash-list shows an entry of insecure %s/.Trash/%d" % (
                        vol, uid), **t)
                if bad and (vol + "/.Trash/%d" % uid) not in res.err:
                    out.fail("skip_not_reported", "trash-list stderr does not name the skipped "
                             "directory: %r" % res.err[-200:], **t)
                if state == "sticky" and aline not in res.out:
                    out.fail("valid_not_listed", "entry in valid %s/.Trash/%d not listed" % (vol, uid), **t)
        elif cmd == "restore":
            if a is not None and bad and aline in results[0].out:
                out.fail("insecure_offered", "trash-restore offers an entry of insecure %s/.Trash/%d" % (
                    vol, uid), **t)
            if a is not None and state == "sticky" and aline not in results[0].out:
                out.fail("valid_not_offered", "trash-restore does not offer the entry of valid "
                         "%s/.Trash/%d: %r" % (vol, uid, results[0].out[:200]), **t)
        elif cmd in ("empty", "rm"):
            if b["info"] in after or b["payload"] in after:
                out.fail("control_not_purged", "%s did not purge %s/.Trash-%d" % (cmd, vol, uid), **t)
            if a is not None and state == "sticky" and any(
                    p.startswith(a["dir"] + "/files/") or p.startswith(a["dir"] + "/info/") for p in after):
                out.fail("valid_not_purged", "%s did not purge valid %s/.Trash/%d" % (cmd, vol, uid), **t)
        elif cmd == "put" and vol == V1:
            want = (vol + "/.Trash/%d" % uid) if state == "sticky" else (vol + "/.Trash-%d" % uid)
            if V1 == "":
                want = "/home/u/.local/share/Trash"     # (the home trash is on the root volume too)
            got = [p for p in after if p not in before and "/files/" in p and
                   (p.startswith("/vol/") if V1 else not p.startswith("/vol2/"))]
            if len(got) != 1 or not got[0].startswith(want + "/files/"):
                out.fail("put_wrong_dir", "put used %s, expected %s (exit %d, stderr %r)" % (
                    got, want, res.code, res.err[-200:]), **t)
    if insecure and (a1 is not None or us != "full"):
        out.key = [cmd, case["state"], case["state2"], uid, gen.name_class(case["name"]), us,
                   bool(case.get("rootvol"))]
        out.sample = dict(case, exit=res.code)
    return out


def check_untouched(out, case, before, after, tags, what):
    uid = case["uid"]
    for vol, state in (("" if case.get("rootvol") else "/vol", case["state"]), ("/vol2", case["state2"])):
        if state in INSECURE:
            d = top_dir(vol, state)     # everything behind .Trash, the $uid directory included
            if subtree(after, d) != subtree(before, d):
                diff = sorted(set(subtree(before, d).items()) ^ set(subtree(after, d).items()))
                out.fail("insecure_dir_modified", "%s modified %s (behind insecure %s/.Trash): %s" % (
                    what, d, vol, [x[0] for x in diff][:4]), cmd=tags["cmd"], state=state)
