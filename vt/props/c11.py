"""C11 -- purging touches nothing outside the trash directories and follows no symlink."""
from hypothesis import strategies as st

from .. import gen, oracle, runner, sandbox
from ..driver import Outcome
from ..sandbox import fsenc

ID = "C11"
LEVEL = "exploration"
RULE = ("Hypothesis generates trash contents designed to lead a purge astray: payloads that are "
        "symlinks to files / directories OUTSIDE the trash (absolute, relative, dangling), trees "
        "with such links at depth 1-3, empty directories (also mode 000), info files that are symlinks, unusual info names "
        "('x.trashinfo.trashinfo', names with newlines, '.trashinfo'), orphans, and trash "
        "directories reached through a symlink (XDG_DATA_HOME link, --trash-dir link, info/ itself a link to a directory elsewhere with a precious 'files' sibling); commands "
        "trash-empty, trash-empty DAYS, trash-rm PATTERN. Oracle: (1) frame - the lstat snapshot of "
        "everything not located under files/ or info/ of an operated trash dir (link targets, "
        "precious directories, the files/ and info/ directories themselves) is identical "
        "before/after; (2) trace - every mutating os-level operation recorded by the interposer "
        "has its (parent-resolved) path inside files/ or info/ of a trash dir. Non-trivial: >= 1 "
        "payload symlink or inner symlink pointing outside; distinct by (command, link kinds, "
        "special names, trash-dir indirection).")
ASSUMPTIONS = ["files/ is a real directory; info/ is a real directory or (indirection info_link) a symlink to one"]

LINKS = ["abs_file", "abs_dir", "rel_file", "rel_dir", "dangling", "dir_slash", "root", "parent"]
SPECIAL = ["none", "none", "none", "double_suffix", "newline", "dot_trashinfo", "info_symlink",
           "payload_is_files_name", "pct_traversal"]


def examples(tier):
    return 4000 if tier == "quick" else 100000


@st.composite
def strategy_(draw, tier):
    tw = gen.draw_layout(draw)
    tds = gen.draw_tdirs(draw, tw)
    indirection = draw(st.sampled_from(["none", "none", "xdg_link", "trash_dir_link", "info_link"]))
    ents = []
    for i in range(draw(st.integers(1, 6))):
        tdir, base = draw(st.sampled_from(tds))
        ents.append(dict(tdir=tdir, base=base, name=draw(gen.names(long_ok=False)),
                         kind=draw(st.sampled_from(["link", "link", "tree", "tree", "file", "emptydir", "fifo"])),
                         link=draw(st.sampled_from(LINKS)),
                         inner=[draw(st.sampled_from(LINKS)) for _ in range(draw(st.integers(0, 3)))],
                         special=draw(st.sampled_from(SPECIAL)),
                         old=draw(st.booleans())))
    cmd = draw(st.sampled_from(["empty", "empty_days", "rm_star", "rm_name", "empty_trash_dir"]))
    return {"layout": tw.layout, "uid": tw.uid, "ents": ents, "cmd": cmd,
            "indirection": indirection,
            "flags": draw(st.sampled_from([[], [], ["-v"], ["-v"], ["-vv"], ["--dry-run"], ["--dry-run", "-v"]])),
            # every unlink / rmdir / remove answers EACCES (what a non-root user gets inside read-only
            # directories): whatever error handling runs, it must not touch anything outside either
            "fault": draw(st.sampled_from([None, None, None, "unlink", "rmdir", "remove"]))}


def strategy(tier):
    return strategy_(tier)


def link_target(kind, depth_from_files):
    up = "../" * (depth_from_files + 3)
    return {"abs_file": "/precious/file", "abs_dir": "/precious/dir",
            "rel_file": up + "precious/file", "rel_dir": up + "precious/dir",
            "dangling": "/precious/missing", "dir_slash": "/precious/dir/", "root": "/",
            "parent": ".."}[kind]


def run_case(case):
    out = Outcome()
    vols, home = gen.LAYOUTS[case["layout"]]
    env = {"HOME": home}
    tw = gen.TrashWorld(vols, home, case["uid"], env)
    tw.nodes += [{"p": "/precious/file", "t": "f", "c": "precious content"},
                 {"p": "/precious/dir/a", "t": "f", "c": "precious a"},
                 {"p": "/precious/dir/sub/b", "t": "f", "c": "precious b"}]
    for v in vols:  # relative links resolve against the volume they sit on
        tw.nodes += [{"p": v + "/precious/file", "t": "f", "c": "precious on volume"},
                     {"p": v + "/precious/dir/a", "t": "f", "c": "precious a on volume"}]
    real_home_trash = tw.home_trash()
    remap = {}
    if case["indirection"] == "xdg_link":
        # home trash = $XDG_DATA_HOME/Trash where XDG_DATA_HOME is a symlink to a real dir
        env["XDG_DATA_HOME"] = home + "/xdg-link"
        tw.nodes.append({"p": home + "/real xdg", "t": "d"})
        tw.nodes.append({"p": home + "/xdg-link", "t": "l", "to": "real xdg"})
        remap[real_home_trash] = home + "/real xdg/Trash"
    INFO_ELSEWHERE = "/disk/trash-info"
    if case["indirection"] == "info_link" and case["ents"]:
        # info/ of the first entry's trash directory is a symlink to a directory elsewhere (a
        # roomier disk); next to that directory lies a precious 'files' directory that must never
        # be mistaken for the trash directory's files/
        t0 = remap.get(case["ents"][0]["tdir"], case["ents"][0]["tdir"])
        tw.nodes[0:0] = [{"p": INFO_ELSEWHERE, "t": "d", "m": 0o700},
                         # (relative text: the builder works outside the chroot)
                         {"p": t0 + "/info", "t": "l", "to": __import__("posixpath").relpath(INFO_ELSEWHERE, t0)}]
    special_seen, link_kinds = set(), set()
    made = []
    for i, e in enumerate(case["ents"]):
        tdir = remap.get(e["tdir"], e["tdir"])
        base = e["base"]
        name = e["name"]
        sp = e["special"]
        if sp == "double_suffix":
            name = name + ".trashinfo"
        elif sp == "newline":
            name = "new\nline " + name
        elif sp == "dot_trashinfo":
            name = ""
        elif sp == "payload_is_files_name":
            name = "files"
        elif sp == "pct_traversal":
            # an info file whose NAME, if percent-decoded, would walk out of files/ to a precious
            # file; it has no payload of its own
            name = "..%2F" * 10 + "precious%2F" + ("file" if i % 2 else "dir")
        special_seen.add(sp)
        tw.ensure_tdir(tdir, base)
        orig = (base.rstrip("/") if base else home) + "/w/" + (e["name"] or "x")
        pv = fsenc(orig) if base is None else fsenc("w/" + (e["name"] or "x"))
        date = "2001-01-01T00:00:00" if e["old"] else "2030-01-01T00:00:00"
        ip = tdir + "/info/" + name + ".trashinfo"
        pp = tdir + "/files/" + name
        if any(m[0] == ip for m in made):
            continue
        info = oracle.make_info(pv, date)
        if sp == "info_symlink":
            tw.nodes.append({"p": "/precious/foreign%d.trashinfo" % i, "t": "b", "b": list(info)})
            tw.nodes.append({"p": ip, "t": "l", "to": "/precious/foreign%d.trashinfo" % i})
        else:
            tw.nodes.append({"p": ip, "t": "b", "b": list(info), "m": 0o600})
        if name != "" and sp != "pct_traversal":
            if e["kind"] == "link":
                tw.nodes.append({"p": pp, "t": "l", "to": link_target(e["link"], tdir.count("/"))})
                link_kinds.add(e["link"])
            elif e["kind"] == "file":
                tw.nodes.append({"p": pp, "t": "f", "c": "payload"})
            elif e["kind"] == "fifo" and not case.get("fault"):
                tw.nodes.append({"p": pp, "t": "p", "m": 0o600})
            elif e["kind"] == "fifo":
                # (with every removal answering EACCES the pinned tree falls back to shutil.rmtree,
                # which open(2)s its argument and would block on a fifo for ever - a hang that is
                # not this property's business; a plain file stands in)
                tw.nodes.append({"p": pp, "t": "f", "c": "payload"})
            elif e["kind"] == "emptydir":
                # an empty directory as payload (removal primitives that prune empty parents
                # would take files/ and the trash directory with it)
                tw.nodes.append({"p": pp, "t": "d", "m": [0o755, 0o700, 0][i % 3]})
            else:
                tw.nodes.append({"p": pp + "/plain", "t": "f", "c": "plain"})
                d = pp
                for j, lk in enumerate(e["inner"]):
                    d = d + "/lvl%d" % j
                    tw.nodes.append({"p": d + "/esc%d" % j, "t": "l",
                                     "to": link_target(lk, tdir.count("/") + j + 2)})
                    link_kinds.add(lk)
        made.append((ip, pp, e["old"], orig))
        if case["indirection"] == "info_link" and name not in ("", ".", ".."):
            tw.nodes.append({"p": "/disk/files/" + name, "t": "f", "c": "precious, next to the info dir"})
    spec = tw.spec(cwd="/")
    sandbox.build_world(spec)
    before = sandbox.snapshot()
    cmd = case["cmd"]
    fplan = None
    if case.get("fault"):
        import errno as _errno
        fplan = {"faults": [{"k": None, "op": case["fault"], "path": None, "errno": _errno.EACCES}]}
    _run = runner.run

    class _R(object):   # runner.run with the fault plan of this case
        @staticmethod
        def run(spec_, script, args, **kw):
            if fplan is not None:
                kw["plan"] = dict(fplan)
            return _run(spec_, script, args, **kw)
    runner_ = _R
    fl = list(case.get("flags", []))   # trash-rm has no options: flags apply to trash-empty only
    if cmd == "empty":
        res = runner_.run(spec, "trash-empty", fl)
    elif cmd == "empty_days":
        res = runner_.run(spec, "trash-empty", fl + ["30"], env={"TRASH_DATE": "2020-01-01T00:00:00"})
    elif cmd == "rm_star":
        res = runner_.run(spec, "trash-rm", ["*"])
    elif cmd == "rm_name":
        res = runner_.run(spec, "trash-rm", [made[0][3].rsplit("/", 1)[-1].replace("[", "[[]")
                                            if made else "x"])
    else:
        td = remap.get(case["ents"][0]["tdir"], case["ents"][0]["tdir"])
        arg = td
        if case["indirection"] == "trash_dir_link":
            res0 = None
            arg = "/td-link"
            import os
            os.symlink(td, sandbox.wp("/td-link"))
            before = sandbox.snapshot()
        res = runner_.run(spec, "trash-empty", fl + ["--trash-dir", arg])
    after = sandbox.snapshot()
    tags = dict(cmd=cmd, special="dot_trashinfo" if "dot_trashinfo" in special_seen else "other")
    tdirs = [t for t in oracle.trash_dirs_in(before) if t != "/disk"]   # (/disk/files is a decoy)

    def inside(p):
        if case["indirection"] == "info_link" and p.startswith(INFO_ELSEWHERE + "/"):
            return True     # (the physical place of that trash directory's info files)
        for t in tdirs:
            for sub in ("/files/", "/info/"):
                if p.startswith(t.rstrip("/") + sub):
                    return True
        return False

    own = {t.rstrip("/") + s for t in tdirs for s in ("/files", "/info")} | {INFO_ELSEWHERE}
    for p, n in before.items():
        if inside(p):
            continue
        m = after.get(p)
        if m is None:
            out.fail("outside_removed", "%s (outside files/ and info/) was removed by %s" % (p, cmd), **tags)
            break
        if sandbox.sig(m, mtime=p not in own) != sandbox.sig(n, mtime=p not in own):
            out.fail("outside_modified", "%s (outside files/ and info/) was modified by %s" % (p, cmd), **tags)
            break
    for p in after:
        if p not in before and not inside(p):
            out.fail("outside_created", "%s created by %s" % (p, cmd), **tags)
            break
    for t in res.trace:
        name, paths = t[2], t[3]
        if t[1] == 0 or name in ("close", "write"):
            continue
        for q in paths[:2 if name in ("rename", "replace", "link") else 1]:
            if not isinstance(q, str):
                continue
            par, _, last = q.rstrip("/").rpartition("/")
            rp = oracle.resolve(before, par or "/")
            canon = (rp.rstrip("/") + "/" + last) if rp else q
            if not inside(canon):
                out.fail("op_outside", "%s issued %s on %s (= %s), outside files/ and info/" % (
                    cmd, name, q, canon), **tags)
                break
    out.classes += ["cmd:" + cmd, "indirection:" + case["indirection"], "exit:%d" % res.code,
                    "fault:%s" % case.get("fault"),
                    "flags:" + ("+".join(fl) if cmd.startswith("empty") else "n/a")] + \
        ["special:" + s for s in special_seen] + ["link:" + l for l in link_kinds]
    if link_kinds:
        out.key = [cmd, sorted(link_kinds), sorted(special_seen - {"none"}), case["indirection"],
                   fl if cmd.startswith("empty") else [], case.get("fault")]
        out.sample = {"cmd": cmd, "links": sorted(link_kinds), "special": sorted(special_seen),
                      "indirection": case["indirection"], "exit": res.code,
                      "mutating_ops": sum(1 for t in res.trace if t[1])}
    return out
