"""C01 -- trash-put conserves data: each argument ends fully trashed or untouched."""
from hypothesis import strategies as st

from .. import gen, oracle, putcheck, runner, sandbox
from ..driver import Outcome

ID = "C01"
LEVEL = "exploration"
RULE = ("Hypothesis generates a world (volume layout x $topdir/.Trash and .Trash-$uid states x "
        "pre-existing trash content) with 1-3 entries of any kind, a spelling per argument "
        "(abs, relative, ./x, sub/../x, link/../x, trailing slashes, //, via symlinked parent, "
        "dot entries, mount point, ancestor of the trash dir, nonexistent, relative from a working "
        "directory deeper than PATH_MAX) and an option set; the "
        "real trash-put runs in it; oracle = every named entry is in state T (gone + exactly one "
        "new info/payload pair deep-equal to the pre-snapshot, info decoding to its location) or "
        "U (deep-equal at its place), no stray info / orphan payload, nothing else changed. "
        "Non-trivial: at least one argument names an existing entry; distinct by (kind, spelling, "
        "name class, layout, option class, T/U outcome).")
ASSUMPTIONS = ["identity of an argument = realpath(dirname)/basename after stripping trailing "
               "slashes (kernel semantics, own resolver)",
               "symlink mtimes and directory mtimes of untouched ancestors are not compared"]

SPELLINGS = ["abs", "rel", "dotrel", "slash1", "slash2", "slash3", "dslash", "sub_dotdot",
             "lnk_dotdot", "via_link_parent", "via_link_gparent", "dot", "dotdot", "dot_slash", "dotdot_slash",
             "e_dot", "e_dotdot", "e_dot_slash", "mountpoint", "trash_ancestor", "nonexistent"]
ANCESTRAL = ("dot", "dotdot", "dot_slash", "dotdot_slash", "e_dotdot", "mountpoint",
             "trash_ancestor")
OPTSETS = [[], ["-f"], ["-v"], ["-vv"], ["-i"], ["-d"], ["-r"], ["--"], ["--home-fallback"],
           ["--trash-dir"], ["-f", "-v"], ["-rf"]]


def examples(tier):
    return 12000 if tier == "quick" else 200000


def relpath(target, cwd):
    import posixpath
    return posixpath.relpath(target, cwd)


@st.composite
def strategy_(draw, tier):
    lay = draw(st.sampled_from(sorted(gen.LAYOUTS)))
    vols, home = gen.LAYOUTS[lay]
    uid = draw(st.sampled_from([1000, 1000, 0, 4242]))
    env = {"HOME": home}
    xdg = draw(st.sampled_from(["unset"] * 6 + ["custom", "othervol"]))
    if xdg == "custom":
        env["XDG_DATA_HOME"] = home + "/xdg data"
    elif xdg == "othervol" and vols:
        env["XDG_DATA_HOME"] = [v for v in vols if v != "/home"][0] + "/xdg" \
            if [v for v in vols if v != "/home"] else home + "/xdg"
    fb = draw(st.sampled_from([None, None, "1", "0"]))
    # "ro" scenario: the directory holding an argument does not let the user change its entries
    # (no write permission -> EACCES, or append-only -> EPERM on removal); link(2) out of it and
    # reads still work.  No home fallback then, so every move is a same-volume rename.
    ro = draw(st.sampled_from([None] * 6 + ["ro", "append"]))
    # "xdev" scenario: the home fallback is enabled both ways and the volume trash directories of
    # every non-home volume are unusable, so entries there are trashed by cross-device copy+delete
    xdev = bool(vols) and draw(st.integers(0, 6)) == 0 and ro is None
    if xdev:
        fb = "1"
    if ro:
        fb = None
    if fb is not None:
        env["TRASH_ENABLE_HOME_FALLBACK"] = fb
    workdirs = [home + "/w", "/data"] + [v + "/d" for v in vols if v != "/home"]
    nodes = [{"p": d, "t": "d"} for d in workdirs]
    nodes.append({"p": "/data/tfile", "t": "f", "c": "target"})
    nodes.append({"p": "/data/tdir/inner", "t": "f", "c": "inner"})
    nodes.append({"p": "/data/tdir/sub", "t": "d"})
    link_targets = ["/data/tfile", "/data/tdir", "../../data/tfile", "tfile-missing",
                    "/data/tdir/"]
    if len(workdirs) > 2:
        nodes.append({"p": workdirs[2] + "/vfile", "t": "f", "c": "on volume"})
        link_targets += [workdirs[2] + "/vfile", workdirs[2]]
    for v in ["/"] + vols:
        ts = draw(st.sampled_from(["absent"] * 4 + gen.TOP_STATES))
        as_ = draw(st.sampled_from(["absent"] * 4 + gen.ALT_STATES))
        if xdev and v != oracle.volume_of(vols, home):
            ts, as_ = draw(st.sampled_from(["absent", "nonsticky", "file"])), "file"
        nodes += gen.topdir_nodes(v, uid, ts, as_, draw(st.booleans()))
    n = draw(st.integers(1, 3))
    cwd = draw(st.sampled_from(workdirs + [home, "/"]))
    # "deepcwd": the argument lives deeper than PATH_MAX and is named relative to the working
    # directory (the only way to name it at all)
    deepcwd = draw(st.integers(0, 24)) == 0
    if deepcwd:
        n = 1
    files, metas = [], []
    used = set()
    for i in range(n):
        d = draw(st.sampled_from(workdirs))
        if deepcwd:
            d = d + "".join("/%02d" % j + "d" * 240 for j in range(17))
            nodes.append({"p": d, "t": "d"})
            cwd = d
        name = draw(gen.names(raw=False))
        kind = draw(st.sampled_from(gen.KINDS))
        e = d + "/" + name
        if e in used or any(x.startswith(e + "/") or e.startswith(x + "/") for x in used):
            continue
        used.add(e)
        if kind == "link_link":
            nodes.append({"p": d + "/mid" + str(i), "t": "l", "to": "/data/tfile"})
            lt = ["mid" + str(i)] if deepcwd else [d + "/mid" + str(i)]
        elif kind == "link_file":
            lt = [t for t in link_targets if "tfile" in t and "missing" not in t or "vfile" in t]
        elif kind == "link_dir":
            lt = [t for t in link_targets if t.rstrip("/").endswith("tdir") or t.endswith("/d")]
        elif kind == "link_dangling":
            lt = ["tfile-missing", "/nonexistent/x", ""] [:2]
        else:
            lt = link_targets
        nodes += draw(gen.entry_nodes(e, kind, lt, big=True))
        sp = draw(st.sampled_from(SPELLINGS))
        if deepcwd:
            sp = draw(st.sampled_from(["rel", "dotrel", "slash1"]))
        is_dir = kind in ("dir", "tree")
        if sp in ("e_dot", "e_dotdot", "e_dot_slash") and not (is_dir or kind == "link_dir"):
            sp = "abs"
        if sp == "mountpoint" and not vols:
            sp = "slash1"
        arg = e
        if sp == "rel":
            arg = relpath(e, cwd)
        elif sp == "dotrel":
            arg = "./" + relpath(e, cwd)
        elif sp.startswith("slash"):
            arg = (name if deepcwd else e) + "/" * int(sp[-1])
        elif sp == "dslash":
            arg = d + "//" + name
        elif sp == "sub_dotdot":
            nodes.append({"p": d + "/sub9", "t": "d"})
            arg = d + "/sub9/../" + name
        elif sp == "lnk_dotdot":
            nodes.append({"p": d + "/sl9", "t": "l", "to": "/data/tdir/sub"})
            if draw(st.booleans()):
                nodes.append({"p": "/data/tdir/" + name, "t": "f", "c": "decoy"})
            arg = d + "/sl9/../" + name
        elif sp == "via_link_parent":
            nodes.append({"p": "/data/ln%d" % i, "t": "l", "to": d})
            arg = "/data/ln%d/%s" % (i, name)
        elif sp == "via_link_gparent":
            # a symlinked directory two levels above the entry: /data/lg<i> -> dirname(d)
            nodes.append({"p": "/data/lg%d" % i, "t": "l", "to": d.rsplit("/", 1)[0] or "/"})
            arg = "/data/lg%d/%s/%s" % (i, d.rsplit("/", 1)[1], name)
        elif sp == "dot":
            arg = "."
        elif sp == "dotdot":
            arg = ".."
        elif sp == "dot_slash":
            arg = "./"
        elif sp == "dotdot_slash":
            arg = "../"
        elif sp == "e_dot":
            arg = e + "/."
        elif sp == "e_dotdot":
            arg = e + "/.."
        elif sp == "e_dot_slash":
            arg = e + "/./"
        elif sp == "mountpoint":
            arg = draw(st.sampled_from(vols))
        elif sp == "trash_ancestor":
            arg = draw(st.sampled_from([home, home + "/.local"]))
            nodes.append({"p": home + "/.local/share", "t": "d"})
        elif sp == "nonexistent":
            arg = d + "/missing-" + str(i)
        files.append(arg)
        metas.append({"kind": kind, "spelling": sp + ("@deepcwd" if deepcwd else ""),
                      "name_class": gen.name_class(name)})
    for j, m in enumerate(metas):
        # spellings that name an ancestor of other entries are only used alone (the T/U
        # reading of C01 is per argument; aliasing arguments are C16's business)
        if m["spelling"] in ANCESTRAL or (m["kind"] == "link_dir" and m["spelling"].startswith("e_dot")):
            # ('link-to-dir/.' denotes the link's target, possibly a directory holding other arguments)
            files, metas = [files[j]], [metas[j]]
            break
    if not files:
        files, metas = ["/data/tfile"], [{"kind": "file", "spelling": "abs", "name_class": "plain"}]
    # pre-existing trash content colliding with the first entry's name
    if draw(st.booleans()):
        td = draw(st.sampled_from([home + "/.local/share/Trash"] +
                                  [v.rstrip("/") + "/.Trash-%d" % uid for v in ["/"] + vols]))
        nm = files[0].rstrip("/").rsplit("/", 1)[-1] or "x"
        if nm not in (".", "..") and len(sandbox.fsenc(nm)) < 240 and not any(x["p"] == td and x["t"] != "d" for x in nodes):
            which = draw(st.sampled_from(["pair", "orphan_payload", "orphan_info"]))
            pair = gen.trashed_pair_nodes(td, nm, b"/old/" + sandbox.fsenc(nm),
                                          "2001-01-01T00:00:00")
            if which == "pair":
                nodes += pair
            elif which == "orphan_payload":
                nodes += pair[1:]
            else:
                nodes += pair[:1]
    opts = list(draw(st.sampled_from(OPTSETS)))
    ro_dirs = {}
    if ro:
        if "--home-fallback" in opts:
            opts = []
        ro_dirs = {draw(st.sampled_from(sorted(set(e.rsplit("/", 1)[0] for e in used)) or ["/data"])): ro}
    if xdev:
        opts = ["--home-fallback"] + draw(st.sampled_from([[], ["-v"]]))
    if "--trash-dir" in opts:
        opts = ["--trash-dir", draw(st.sampled_from([home + "/mytrash", "/data/mytrash"] +
                                                     [v + "/mytrash" for v in vols]))]
    if any(f.startswith("-") for f in files) and "--" not in opts:
        opts.append("--")
    stdin = draw(st.sampled_from(["y\n", "n\n", "\n", "", "Y\n", "yes\nno\ny\n"])) * 3
    spec = {"vols": vols, "nodes": nodes, "env": env, "uid": uid, "cwd": cwd,
            "now": "2021-03-04T05:06:07", "umask": draw(st.sampled_from([0o022, 0o077, 0]))}
    # "full" scenario: one volume has no free block left (real ENOSPC from the kernel on every
    # write, whatever layer of Python issues it; names can still be created)
    full = draw(st.sampled_from([None] * 7 + ["full"])) if vols else None
    if full:
        fv = draw(st.sampled_from(vols))
        spec["vol_size"] = {fv: "3m"}
        spec["fill"] = [fv]
    return {"spec": spec, "opts": opts, "files": files, "meta": metas, "stdin": stdin,
            "layout": lay, "xdev": xdev, "ro_dirs": ro_dirs}


def strategy(tier):
    return strategy_(tier)


def optclass(opts):
    return "+".join(o for o in opts if o.startswith("-") and o != "--") or "none"


def judge_put(case, out, before, after, res, prop="C01"):
    """shared T/U + frame oracle; returns list of (arg, state)"""
    spec = case["spec"]
    pa = putcheck.PutAnalysis(before, after, sandbox.read_bytes, spec["vols"])
    states = []
    entries = []
    ids = []
    for arg, meta in zip(case["files"], case["meta"]):
        ident = putcheck.identity(before, arg, spec["cwd"])
        ids.append(ident)
        if ident is not None:
            entries.append(ident[1])
    for arg, meta, ident in zip(case["files"], case["meta"], ids):
        tags = dict(spelling=meta["spelling"], kind=meta["kind"])
        if ident is None:
            states.append((arg, "N"))
            continue
        kind_, e = ident
        stt, info = pa.state_of(e, check_path=True,
                                exclude=[x for x in entries if x != e],
                                tolerant=(meta["spelling"] == "trash_ancestor"))
        states.append((arg, stt))
        if stt == "X":
            out.fail("neither_trashed_nor_untouched",
                     "argument %r (entry %s): %s [exit %d, stderr %r]" % (
                         arg, e, info, res.code, res.err[-300:]), **tags)
        elif stt == "T" and len(case["files"]) == 1 and res.code != 0:
            out.fail("failure_reported_but_trashed",
                     "argument %r trashed although exit status is %d" % (arg, res.code), **tags)
    import posixpath
    lex = [posixpath.normpath(posixpath.join(spec["cwd"], a)) for a in case["files"]]

    def culprit(p, by_name=False):
        """meta of the argument blamed for a case-level failure: an argument whose spelling
        is one of the risky ones wins (so that a known finding present in the case is the
        one blamed), then lexical / name match, then the first argument"""
        risky = ("lnk_dotdot", "mountpoint")  # spellings of the open findings F3, F2
        for m in case["meta"]:
            if m["spelling"] in risky:
                return m
        for a, lx, m in zip(case["files"], lex, case["meta"]):
            if by_name:
                base = lx.rsplit("/", 1)[-1]
                nm = p.rsplit("/", 1)[-1]
                if nm.endswith(".trashinfo"):
                    nm = nm[:-10]
                if base and (nm == base or nm.startswith(base + "_")):
                    return m
            elif putcheck.under(p, lx):
                return m
        return case["meta"][0]

    si, sp = pa.leftovers()
    if si:
        m = culprit(si[0], True)
        out.fail("stray_info", "new .trashinfo without a trashed argument: %s [exit %d]" % (
            si[:3], res.code), spelling=m["spelling"], kind=m["kind"])
    if sp:
        m = culprit(sp[0], True)
        out.fail("orphan_payload", "new payload without a trashed argument: %s [exit %d]" % (
            sp[:3], res.code), spelling=m["spelling"], kind=m["kind"])
    lost, changed, new = pa.frame(entries)
    if lost:
        m = culprit(lost[0])
        out.fail("frame_lost", "paths outside the arguments disappeared: %s" % lost[:4],
                 spelling=m["spelling"], kind=m["kind"])
    if changed:
        m = culprit(changed[0])
        out.fail("frame_changed", "paths outside the arguments changed: %s" % changed[:4],
                 spelling=m["spelling"], kind=m["kind"])
    if new:
        m = culprit(new[0])
        out.fail("frame_new", "unexpected new paths: %s" % new[:4],
                 spelling=m["spelling"], kind=m["kind"])
    return states, ids


def run_case(case):
    out = Outcome()
    spec = case["spec"]
    sandbox.build_world(spec)
    before = sandbox.snapshot()
    plan = {"ro_dirs": case["ro_dirs"]} if case.get("ro_dirs") else None
    res = runner.run(spec, "trash-put", case["opts"] + case["files"], stdin=case["stdin"], plan=plan)
    after = sandbox.snapshot()
    if res.code == 98 or res.signal is not None:
        out.fail("did_not_terminate", "trash-put exceeded the operation budget / was killed "
                 "(code %d)" % res.code, spelling=case["meta"][0]["spelling"],
                 kind=case["meta"][0]["kind"])
    states, ids = judge_put(case, out, before, after, res)
    nontrivial = any(i is not None for i in ids)
    for (arg, s), m in zip(states, case["meta"]):
        out.classes.append("spelling:" + m["spelling"])
        out.classes.append("kind:" + m["kind"])
        out.classes.append("state:" + s)
    out.classes.append("opts:" + optclass(case["opts"]))
    out.classes.append("layout:" + case["layout"])
    out.classes.append("xdev_fallback:%s" % case.get("xdev", False))
    out.classes.append("ro_dir:%s" % ("+".join(sorted(case.get("ro_dirs", {}).values())) or "no"))
    out.classes.append("full_volume:%s" % bool(spec.get("fill")))
    out.classes.append("exit:%d" % res.code)
    if nontrivial:
        out.key = [[m["kind"], m["spelling"], m["name_class"], s] for (a, s), m in
                   zip(states, case["meta"])] + [case["layout"], optclass(case["opts"]), case.get("xdev", False),
                                                 "+".join(sorted(case.get("ro_dirs", {}).values())),
                                                 bool(spec.get("fill"))]
        out.sample = {"cwd": spec["cwd"], "argv": case["opts"] + case["files"],
                      "layout": case["layout"], "states": states, "exit": res.code}
    return out
