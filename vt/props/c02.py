"""C02 -- put then restore returns the exact entry to its exact original path."""
import re

from hypothesis import strategies as st

from .. import gen, oracle, runner, sandbox
from ..driver import Outcome
from ..sandbox import subtree

ID = "C02"
LEVEL = "exploration"
RULE = ("Hypothesis generates an entry (any kind, name from the byte-level alphabet incl. newline, "
        "'%', leading '-', non-ASCII), its directory on the home volume or another volume, the "
        "trash-dir kind that will receive it (home, $topdir/.Trash/$uid, $topdir/.Trash-$uid, "
        "--trash-dir), a history of 0-4 other puts / restores / trash-rm in between, whether the "
        "parent directory is deleted meanwhile, the restore invocation (cwd = original dir, an "
        "ancestor, '/', or the path given as argument) and --sort {date,path,none}. The real "
        "commands run with an advancing virtual clock: put; history; trash-restore with an empty "
        "reply (listing captured, nothing may be restored); the entry's index is read off the "
        "listing; trash-restore answering that index. Oracle: snapshot at exactly the original "
        "absolute path deep-equals the pre-put snapshot (content, tree, link target, modes, "
        "mtimes); its info and payload are gone; every other pair in the trash and the rest of "
        "the world are unchanged. Non-trivial: the restore ran with >= 1 other entry in the "
        "trash; distinct by (kind, name class, trash-dir kind, sort, cwd class, history shape).")
ASSUMPTIONS = ["the path argument form uses the canonical original path",
               "--trash-dir puts are restored with trash-restore --trash-dir (hidden option)"]

HIST = ["put_sibling", "put_same_name", "put_elsewhere", "restore_other", "rm_other"]


def examples(tier):
    return 6000 if tier == "quick" else 60000


@st.composite
def strategy_(draw, tier):
    # (home_vol: the home trash, which records absolute Paths, lies on a volume of its own)
    tkind = draw(st.sampled_from(["home", "home", "home_vol", "top_sticky", "top_alt", "trash_dir"]))
    return {"tkind": tkind,
            "kind": draw(st.sampled_from(gen.KINDS)),
            "name": draw(gen.names(raw=draw(st.integers(0, 11)) == 0)),
            "subdirs": draw(st.one_of(st.lists(gen.names(long_ok=False), max_size=2),
                                      st.lists(gen.names(long_ok=False), max_size=2),
                                      st.lists(gen.names(long_ok=False), max_size=2),
                                      # several kB of escaped location, far below PATH_MAX
                                      st.integers(5, 8).map(lambda n: ["\u6587" * 70 + str(i) for i in range(n)]))),
            "hist": draw(st.lists(st.sampled_from(HIST), max_size=4)),
            "rm_parent": draw(st.booleans()),
            "sort": draw(st.sampled_from([None, "date", "path", "none"])),
            "cwd": draw(st.sampled_from(["orig", "parent", "ancestor", "root", "arg", "arg_dir"])),
            "uid": draw(st.sampled_from([1000, 0])),
            "overwrite": draw(st.integers(0, 5)) == 0,
            "batch": draw(st.sampled_from([0, 0, 1, 2])),
            "tree": draw(gen.entry_nodes("/E", "tree", ["/keep/t", "nowhere"])),
            "mode": draw(st.sampled_from([0o644, 0o600, 0o755, 0o400, 0o000])),
            "mt": draw(st.sampled_from([1, 946684800, 1234567890, 4102444800]))}


def strategy(tier):
    return strategy_(tier)


def run_case(case):
    out = Outcome()
    uid = case["uid"]
    home = "/home/u"
    vols = ["/vol"] + (["/home"] if case["tkind"] == "home_vol" else [])
    on_home = case["tkind"] in ("home", "home_vol")
    root = home if on_home else "/vol"
    d = root + "/w"
    for c in case["subdirs"]:
        d += "/" + c
    e = d + "/" + case["name"]
    nodes = [{"p": d, "t": "d"}, {"p": "/keep/t", "t": "f", "c": "link target"},
             {"p": root + "/elsewhere", "t": "d"}]
    if case["tkind"] == "top_sticky":
        nodes += gen.topdir_nodes("/vol", uid, "sticky", "absent")
    k = case["kind"]
    if k in ("file", "empty"):
        nodes.append({"p": e, "t": "f", "c": "content\n" if k == "file" else "",
                      "m": case["mode"], "mt": case["mt"]})
    elif k == "dir":
        # (all permission patterns, 0000 included: the mode of a restored directory is part of "exactly")
        nodes.append({"p": e, "t": "d", "m": {0o644: 0o750, 0o600: 0o700, 0o755: 0o555, 0o400: 0o111,
                                                0o000: 0o000}.get(case["mode"], 0o750), "mt": case["mt"]})
    elif k == "fifo":
        nodes.append({"p": e, "t": "p", "m": 0o640, "mt": case["mt"]})
    elif k == "tree":
        for n in case["tree"]:
            n = dict(n)
            n["p"] = e + n["p"][2:]
            nodes.append(n)
    else:
        nodes.append({"p": e, "t": "l", "to": {"link_file": "/keep/t", "link_dir": "/keep",
                                                "link_dangling": "nowhere/x",
                                                "link_link": "../w"}[k]})
    others = [d + "/sibling-%d" % i for i in range(3)] + [root + "/elsewhere/" + case["name"]]
    for o in others:
        nodes.append({"p": o, "t": "f", "c": "other " + o[-3:]})
    spec = {"vols": vols, "nodes": nodes, "env": {"HOME": home}, "uid": uid, "cwd": d}
    ncls = gen.name_class(case["name"])
    tags = dict(sort=case["sort"] or "default", cwd=case["cwd"], tkind=case["tkind"],
                nonutf8="nonutf8" in ncls or any("nonutf8" in gen.name_class(c) for c in case["subdirs"]))
    try:
        sandbox.build_world(spec)
    except OSError:
        out.classes.append("skipped:unbuildable")
        return out
    clock = [1000]

    def run(script, args, **kw):
        clock[0] += 61
        s = dict(spec, now=gen.date_str(clock[0]))
        return runner.run(s, script, args, **kw)

    td_opt = ["--trash-dir", root + "/my trash"] if case["tkind"] == "trash_dir" else []
    s0 = sandbox.snapshot()
    sigma = subtree(s0, e)
    batch = case.get("batch", 0)
    mates = [others.pop(0) for _ in range(min(batch, 2))]
    # (batch: the entry is one of several arguments of ONE trash-put invocation)
    r = run("trash-put", td_opt + ["--"] + mates[:1] + [e] + mates[1:])
    put_date = gen.date_str(clock[0])
    s1 = sandbox.snapshot()
    if r.code != 0 or e in s1:
        out.fail("put_failed", "trash-put %r: exit %d, stderr %r" % (e, r.code, r.err[-300:]), **tags)
        return out
    # ---- history of other operations
    shape = []
    trashed_others = list(mates)
    for h in case["hist"]:
        if h == "put_sibling" and others[:3]:
            o = others.pop(0)
            run("trash-put", td_opt + ["--", o])
            trashed_others.append(o)
        elif h == "put_same_name":
            # a new entry with the same name at the same place gets trashed too
            import os
            try:
                with open(sandbox.wp(e), "w") as f:
                    f.write("impostor")
            except OSError:
                continue
            run("trash-put", td_opt + ["--", e])
        elif h == "put_elsewhere" and others and others[-1].startswith(root + "/elsewhere"):
            o = others.pop()
            run("trash-put", td_opt + ["--", o])
            trashed_others.append(o)
        elif h == "restore_other" and trashed_others:
            o = trashed_others.pop(0)
            run("trash-restore", td_opt + ["--", o], stdin="0\n", cwd="/vol")
        elif h == "rm_other" and trashed_others:
            o = trashed_others.pop(0)
            if case["tkind"] != "trash_dir":
                run("trash-rm", ["".join("[" + ch + "]" if ch in "*?[" else ch for ch in o)])
        else:
            continue
        shape.append(h)
    if case["rm_parent"]:
        import shutil
        if sandbox.os.path.isdir(sandbox.wp(d)) and d != root:
            shutil.rmtree(sandbox.wp(d))
    s2 = sandbox.snapshot()
    if e in s2:
        # the impostor of put_same_name is never left at the place (it was trashed)
        out.classes.append("skipped:place_taken")
        return out
    # ---- restore invocation
    sort = ["--sort", case["sort"]] if case["sort"] else []
    ow = ["--overwrite"] if case["overwrite"] else []
    cw = case["cwd"]
    exists = lambda p: p in s2 and s2[p].t == "d"
    if cw == "orig" and exists(d):
        cwd, arg = d, []
    elif cw == "parent" and exists(d.rsplit("/", 1)[0]):
        cwd, arg = d.rsplit("/", 1)[0], []
    elif cw == "root":
        cwd, arg = "/", []
    elif cw == "arg":
        cwd, arg = "/vol", ["--", e]
    elif cw == "arg_dir":
        cwd, arg = "/vol", ["--", d]
    else:
        cwd, arg = root, []
        cw = "ancestor"
    tags["cwd"] = cw
    r1 = run("trash-restore", sort + ow + td_opt + arg, cwd=cwd, stdin="")
    s3 = sandbox.snapshot()
    if s3 != s2:
        out.fail("empty_reply_restored", "an empty reply changed the file system", **tags)
    shown = "%s %s" % (put_date.replace("T", " "), e)
    idx = None
    m = re.findall(r"(?m)^ *(\d+) " + re.escape(shown) + "$", r1.out)
    if len(m) >= 1:
        idx = int(m[0])
    out.classes += ["kind:" + k, "tkind:" + case["tkind"], "sort:" + (case["sort"] or "default"),
                    "cwd:" + cw, "hist:%d" % len(shape), "names:" + ncls]
    if idx is None:
        out.fail("not_listed", "trash-restore (cwd %s, args %s) does not list %r; exit %d, stdout %r, "
                 "stderr %r" % (cwd, sort + arg, shown, r1.code, r1.out[:300], r1.err[-300:]), **tags)
        return out
    r2 = run("trash-restore", sort + ow + td_opt + arg, cwd=cwd, stdin="%d\n" % idx)
    s4 = sandbox.snapshot()
    got = subtree(s4, e)
    if got != sigma:
        diff = sorted(set(got.items()) ^ set(sigma.items()))[:3]
        out.fail("not_identical", "restored entry differs from the original at %s (exit %d, stderr "
                 "%r): %s" % (e, r2.code, r2.err[-200:], diff), **tags)
    # trash: exactly one pair disappeared, all other pairs identical
    tdirs = oracle.trash_dirs_in(s2)
    gone, changed = [], []
    for p, n in s2.items():
        if any(p.startswith(t + "/files/") or p.startswith(t + "/info/") for t in tdirs):
            if p not in s4:
                gone.append(p)
            elif sandbox.sig(s4[p]) != sandbox.sig(n):
                changed.append(p)
    tops = [p for p in gone if p.count("/") == min(q.count("/") for q in gone)] if gone else []
    infos = [p for p in gone if "/info/" in p]
    if changed or len(infos) != 1 or any(
            not (p == infos[0] or p.startswith(infos[0].replace("/info/", "/files/")[:-10]))
            for p in gone):
        out.fail("trash_frame", "restore removed/changed other trash content: gone %s changed %s" % (
            gone[:4], changed[:4]), **tags)
    # world frame: nothing else changed (ancestors of e may be re-created)
    for p, n in s2.items():
        if p in gone or any(p.startswith(t) for t in tdirs):
            continue
        if p not in s4 or sandbox.sig(s4[p], n.t != "d") != sandbox.sig(n, n.t != "d"):
            out.fail("world_frame", "%s changed by the restore" % p, **tags)
            break
    for p in s4:
        if p not in s2 and not (p == e or p.startswith(e + "/") or e.startswith(p + "/")):
            out.fail("world_frame", "%s created by the restore" % p, **tags)
            break
    pairs_left = sum(1 for p in s4 if any(p.startswith(t + "/info/") for t in tdirs))
    if pairs_left >= 1 or len(shape) >= 1:
        out.key = [k, ncls, case["tkind"], case["sort"] or "default", cw, shape, case["rm_parent"], batch]
        out.sample = {"entry": e, "kind": k, "tkind": case["tkind"], "history": shape,
                      "restore": sort + arg, "cwd": cwd, "index": idx}
    return out
