"""C10 -- trash-empty DAYS purges exactly the entries trashed more than DAYS days ago."""
from hypothesis import strategies as st

from .. import gen, oracle, runner, sandbox
from ..driver import Outcome
from ..sandbox import fsenc, subtree

ID = "C10"
LEVEL = "exploration"
RULE = ("Hypothesis generates DAYS (0,1,2,7,30,365, random, huge), a current time (given through "
        "TRASH_DATE or through the virtual clock), a volume layout with home and $topdir trash "
        "directories, and 1-8 harness-written entries whose DeletionDate is now - DAYS*24h + delta, "
        "delta in {-1s, 0, +1s, random, far past, future}, or malformed / missing / duplicated, "
        "plus infos without payload and payloads without info; real trash-empty [DAYS] runs. "
        "Oracle (integer seconds, independent of timedelta): removed <=> first DeletionDate is "
        "well formed and < now - DAYS days; removed entries lose payload AND info; kept ones are "
        "identical; without DAYS every pair and orphan is gone. Non-trivial: at least one entry "
        "within 1 s of the threshold; distinct by (delta-class set, DAYS class, clock source, "
        "number of trash dirs).")
ASSUMPTIONS = ["orphan payloads under a DAYS argument and the exit status are not constrained",
               "malformed dates are generated only from clearly non-conforming classes (no "
               "unpadded-but-strptime-parseable dates, no CRLF)"]

DELTAS = ["-1", "0", "+1", "rand_old", "rand_new", "far_past", "future", "malformed", "missing",
          "dup_old_first", "dup_new_first", "dup_bad_first_old", "dup_bad_first_new", "year9999", "year0001",
          "nonutf8"]
MALFORMED = ["garbage", "", "2020-13-45T00:00:00", "2021-02-30T10:00:00", "2020-01-01T00:00:00Z",
             "2020-01-01 00:00:00", "20200101T000000", "2020-01-01T25:00:00", "0000-00-00T00:00:00",
             "2020-01-01T00:00"]


def examples(tier):
    return 10000 if tier == "quick" else 200000


@st.composite
def strategy_(draw, tier):
    tw = gen.draw_layout(draw)
    tds = gen.draw_tdirs(draw, tw)
    days = draw(st.sampled_from([None, None, 0, 0, 1, 1, 2, 7, 30, 365, "rand", "rand", "rand",
                                 "rand", "huge"]))
    if days == "rand":
        days = draw(st.integers(0, 100000))
    elif days == "huge":
        days = draw(st.sampled_from([3650000, 10 ** 9]))
    now = draw(st.integers(86400 * 400, 3 * 10 ** 9))  # seconds since 2000-01-01
    via = draw(st.sampled_from(["TRASH_DATE", "clock"]))
    # a real clock has a sub-second part: "strictly earlier than now - DAYS days" then also
    # holds for an entry trashed exactly DAYS days (to the second) ago
    usec = draw(st.sampled_from([0, 0, 1, 500000, 999999])) if via == "clock" else 0
    d = days if days is not None and days <= 100000 else (0 if days is None else 36500)
    thr = now - d * 86400
    ents = []
    for i in range(draw(st.integers(1, 8))):
        tdir, base = draw(st.sampled_from(tds))
        name = draw(gen.names(long_ok=False))
        dirs = gen.orig_dirs(tw, base)
        orig = draw(st.sampled_from(dirs)) + "/" + name
        dc = draw(st.sampled_from(DELTAS))
        kind = draw(st.sampled_from(["file", "empty", "tree", "link", "fifo"]))
        payload = draw(st.integers(0, 9)) != 0
        secs = {"-1": thr - 1, "0": thr, "+1": thr + 1,
                "rand_old": thr - draw(st.integers(2, 10 ** 7)),
                "rand_new": thr + draw(st.integers(2, 10 ** 7)),
                "far_past": draw(st.integers(-30000000000, -1)),
                "future": now + draw(st.integers(1, 10 ** 8))}.get(dc)
        info = None
        expect_old = None
        if secs is not None:
            secs = max(secs, -31556908800 + 86400 * 366)  # keep year >= 1001
            date = gen.date_str(secs)
            expect_old = secs < thr or (secs == thr and usec > 0)
        elif dc == "year9999":
            # the far end of what a datetime can hold (date + DAYS overflows): in the future => kept
            date = draw(st.sampled_from(["9999-12-31T23:59:59", "9999-12-31T12:00:00", "9999-06-01T00:00:00"]))
            expect_old = False
        elif dc == "year0001":
            date = draw(st.sampled_from(["0001-01-01T00:00:00", "0001-01-02T00:00:00"]))
            expect_old = True
        elif dc == "malformed":
            date = draw(st.sampled_from(MALFORMED))
            expect_old = False
        elif dc == "missing":
            date = None
            expect_old = False
        elif dc == "nonutf8":
            # the info file is not valid UTF-8 (a raw latin-1 byte): its date cannot be read, it is kept -
            # and the entries listed after it are still judged by their own dates
            date = "nonutf8"
            expect_old = False
        elif dc.startswith("dup_bad_first"):
            # the FIRST DeletionDate line decides: it is malformed, so the entry is kept
            # whatever a later line says
            bad = draw(st.sampled_from([m for m in MALFORMED if m]))
            date = (bad, gen.date_str(thr - 500 if dc.endswith("old") else thr + 500))
            expect_old = False
        else:
            old, new = gen.date_str(thr - 5), gen.date_str(thr + 5)
            date = (old, new) if dc == "dup_old_first" else (new, old)
            expect_old = dc == "dup_old_first"
        ents.append(dict(tdir=tdir, base=base, orig=orig, date=date, dc=dc, kind=kind,
                         payload=payload, old=expect_old))
    orphans = [list(draw(st.sampled_from(tds))) for _ in range(draw(st.integers(0, 2)))]
    tdsel = draw(st.sampled_from([None, None, None, None, "first", "two", "all_listed", "glob_named"]))
    if tdsel == "glob_named":
        # --trash-dir names a directory whose NAME contains pattern characters, next to a directory
        # that the name, read as a pattern, would match: only the named one may be touched
        named, neigh = draw(st.sampled_from([("/data/backup[1]", "/data/backup1"), ("/data/old?", "/data/olds"),
                                             ("/data/t*", "/data/tx"), ("/data/[!a]b", "/data/cb")]))
        osecs = max(thr - 86400 * 400, -31556908800 + 86400 * 366)
        for td, nm in ((named, "g-named"), (neigh, "g-neighbour")):
            ents.append(dict(tdir=td, base=None, orig="/data/w/" + nm, date=gen.date_str(osecs),
                             dc="rand_old", kind="file", payload=True, old=True))
    return {"layout": tw.layout, "uid": tw.uid, "days": days, "now": now, "via": via, "usec": usec,
            # the world's time zone (hours east of UTC): DeletionDate and "now" are both LOCAL time
            "tz": draw(st.sampled_from([None, None, None, 9, -8, 5.5, -3.5, 14, -12, "CET-1CEST,M3.5.0,M10.5.0/3",
                                        "EST5EDT,M3.2.0,M11.1.0"])),
            "ents": ents, "orphans": orphans, "verbose": draw(st.booleans()),
            # the readers take the volume list from $TRASH_VOLUMES when it is set (empty items allowed)
            "tv": draw(st.sampled_from([None, None, "plain", "empties"])),
            # --trash-dir (one or several): only the named directories may be touched
            "tdsel": tdsel}


def strategy(tier):
    return strategy_(tier)


def build(case):
    vols, home = gen.LAYOUTS[case["layout"]]
    tw = gen.TrashWorld(vols, home, case["uid"])
    for e in case["ents"]:
        pv = fsenc(e["orig"]) if e["base"] is None else fsenc(e["orig"][len(e["base"].rstrip("/")) + 1:])
        d = e["date"]
        if d == "nonutf8":
            info = b"[Trash Info]\nPath=" + oracle.pct_encode(pv) + b"\xe9\nDeletionDate=2001-01-01T00:00:00\n"
        elif d is None:
            info = b"[Trash Info]\nPath=" + oracle.pct_encode(pv) + b"\n"
        elif isinstance(d, (list, tuple)):
            info = (b"[Trash Info]\nPath=" + oracle.pct_encode(pv) + b"\nDeletionDate=" +
                    d[0].encode() + b"\nDeletionDate=" + d[1].encode() + b"\n")
        else:
            info = b"[Trash Info]\nPath=" + oracle.pct_encode(pv) + b"\nDeletionDate=" + \
                d.encode("utf-8") + b"\n"
        x = tw.add(e["tdir"], e["base"], e["orig"], "x", kind=e["kind"], info_bytes=info,
                   payload=e["payload"], link_to="/nonexistent")
        e["_info"], e["_payload"] = x["info"], x["payload"]
    for i, (td, base) in enumerate(case["orphans"]):
        tw.ensure_tdir(td, base)
        tw.nodes.append({"p": td + "/files/orphan-%d" % i, "t": "f", "c": "orphan"})
    return tw


def run_case(case):
    out = Outcome()
    tw = build(case)
    now = gen.date_str(case["now"])
    nowclock = now + (".%06d" % case["usec"] if case.get("usec") else "")
    spec = tw.spec(cwd="/", now=nowclock if case["via"] == "clock" else "2001-01-01T00:00:00",
                   tz=case.get("tz"))
    env = {"TRASH_DATE": now} if case["via"] == "TRASH_DATE" else {}
    if case.get("tv"):
        allv = ["/"] + list(spec["vols"])
        env["TRASH_VOLUMES"] = ":".join(allv) if case["tv"] == "plain" else "::" + "::".join(allv) + ":"
    sandbox.build_world(spec)
    before = sandbox.snapshot()
    alltd = []
    for e in case["ents"]:
        if e["tdir"] not in alltd:
            alltd.append(e["tdir"])
    for td, _b in case["orphans"]:
        if td not in alltd:
            alltd.append(td)
    sel = None
    if case.get("tdsel") == "first":
        sel = alltd[:1]
    elif case.get("tdsel") == "two":
        sel = alltd[:2]
    elif case.get("tdsel") == "all_listed":
        sel = list(alltd)
    elif case.get("tdsel") == "glob_named":
        sel = [e["tdir"] for e in case["ents"] if e["orig"] == "/data/w/g-named"]
    tdargs = []
    for td in (sel or []):
        tdargs += ["--trash-dir", td]
    args = (["-v"] if case["verbose"] else []) + tdargs + \
        ([str(case["days"])] if case["days"] is not None else [])
    res = runner.run(spec, "trash-empty", args, env=env)
    after = sandbox.snapshot()
    days = case["days"]
    dcl = "none" if days is None else ("huge" if days > 100000 else str(days) if days in (0, 1, 2, 7, 30, 365) else "rand")
    tags = dict(days=dcl, via=case["via"])
    out.classes += ["days:" + dcl, "via:" + case["via"], "exit:%d" % res.code,
                    "tz:%s" % case.get("tz")]
    for e in case["ents"]:
        out.classes.append("delta:" + e["dc"])
        must_go = True if days is None else (e["old"] and days <= 100000)
        if sel is not None and e["tdir"] not in sel:
            must_go = False   # not among the --trash-dir directories: must be left alone
        ip, pp = e["_info"], e["_payload"]
        info_there = ip in after
        pay_there = pp is not None and pp in after
        t = dict(tags, delta=e["dc"])
        if must_go:
            if info_there or pay_there:
                out.fail("old_entry_kept", "entry dated %r (class %s) must be purged by "
                         "`trash-empty %s` at %s; info present: %s, payload present: %s; exit %d stderr %r" % (
                             e["date"], e["dc"], " ".join(args), now, info_there, pay_there,
                             res.code, res.err[-200:]), **t)
        else:
            same = info_there and sandbox.sig(after[ip]) == sandbox.sig(before[ip]) and \
                (pp is None or subtree(after, pp) == subtree(before, pp))
            if not same:
                out.fail("young_entry_purged", "entry dated %r (class %s) must be kept intact by "
                         "`trash-empty %s` at %s; info present: %s, payload present: %s" % (
                             e["date"], e["dc"], " ".join(args), now, info_there, pay_there), **t)
    if days is None:
        left = [p for p in after if ("/files/" in p or "/info/" in p) and
                (sel is None or any(p.startswith(t + "/") for t in sel))]
        if left:
            out.fail("not_emptied", "trash-empty left %s" % left[:4], **tags)
    # frame: nothing outside files/ and info/ changed
    for p, n in before.items():
        if "/files/" in p or "/info/" in p or p.endswith("/files") or p.endswith("/info"):
            continue
        if p not in after or sandbox.sig(after[p]) != sandbox.sig(n):
            out.fail("frame", "%s changed or disappeared" % p, **tags)
            break
    near = sorted(set(e["dc"] for e in case["ents"]))
    if days is not None and any(x in ("-1", "0", "+1") for x in near):
        out.key = [near, dcl, case["via"], len(set(e["tdir"] for e in case["ents"])), bool(case.get("usec")),
                   case.get("tdsel")]
        out.sample = {"days": days, "now": now, "via": case["via"],
                      "entries": [[e["dc"], e["date"], e["tdir"]] for e in case["ents"]],
                      "exit": res.code}
    return out
