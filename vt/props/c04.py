"""C04 -- a trashed entry is never overwritten: names stay unique, also under concurrency."""
from hypothesis import strategies as st

from .. import gen, oracle, runner, sandbox
from ..driver import Outcome
from ..sandbox import subtree

ID = "C04"
LEVEL = "exploration"
RULE = ("Three generated dimensions. (1) Sequential: N in 2..6 (and >= 101 through a trash "
        "pre-populated with foo, foo_1..foo_99; 'dense' cells additionally fill 7/8 of the 65536 "
        "pseudo-random suffixes with payloads without info) puts of same-named entries of mixed kinds into one "
        "trash dir, with pre-existing orphans (payload without info, also a dangling-symlink "
        "payload; info without payload). (2) Concurrent with a harness-owned schedule: 2-3 real "
        "trash-put processes are gated by the interposer before every os-level operation on a "
        "shared path (the trash dir and its ancestors); exactly one runs at a time; schedules = "
        "every schedule with <= 1 preemption (quick) / <= 2 preemptions (thorough) of the core "
        "scenarios {same name x2, x3, first use of a non-existent trash dir, file vs directory "
        "of the same name, collision at index >= 100 with identical pseudo-random suffixes, two processes given the SAME source and a trash dir that does not exist yet} as an "
        "exhaustive grid, plus Hypothesis-generated random segment schedules. (3) Free-running: "
        "8 truly parallel trash-put processes on same-named files. Oracle: every process that "
        "exited 0 owns a distinct complete info/payload pair whose payload deep-equals its "
        "source; #new pairs == #successes; pre-existing pairs and orphans identical; no directory "
        "payload gained children; sources of successful puts gone, of failed ones intact. "
        "Non-trivial: >= 2 successful puts of the same base name into one trash dir; distinct by "
        "(scenario, schedule shape | N, kinds).")
ASSUMPTIONS = ["scheduling points are os-level operations on shared paths; processes trash distinct "
               "sources, so operations on private paths commute",
               "bounded-preemption enumeration (CHESS style), deeper interleavings only by random schedules"]
EXHAUSTIVE_GRID = True

SCEN = ["same2", "same3", "first_use", "file_vs_dir", "collision100", "topdir_first_use", "same_source"]


def examples(tier):
    return 1200 if tier == "quick" else 40000


def grid(tier):
    cells = []
    for sc in SCEN:
        nproc = 3 if sc == "same3" else 2
        maxa = 150 if sc == "collision100" else 70
        cells.append({"mode": "sched", "scen": sc, "segs": []})
        for first in range(nproc):
            for a in range(0, maxa):
                cells.append({"mode": "sched", "scen": sc, "segs": [[first, a]]})
        if tier == "thorough":
            lim = 60
            for first in range(2):
                for a in range(0, lim):
                    for b in range(1, lim):
                        cells.append({"mode": "sched", "scen": sc,
                                      "segs": [[first, a], [(first + 1) % nproc, b], [first, 1000]]})
    for i in range(4 if tier == "quick" else 40):
        cells.append({"mode": "free", "k": 8, "scen": "same2", "round": i})
    # >= 100 collisions (random suffixes) in a trash whose random name space is 7/8 full of
    # payloads without info: a suffix that is drawn but not probed lands on one of them
    for tk in (["home", "top_alt"] if tier == "quick" else ["home", "top_alt", "top_sticky"] * 4):
        cells.append({"mode": "dense", "tkind": tk, "n": 3, "round": len(cells)})
    return cells


@st.composite
def strategy_(draw, tier):
    mode = draw(st.sampled_from(["seq", "seq", "sched", "sched", "sched"]))
    if mode == "seq":
        return {"mode": "seq", "n": draw(st.integers(2, 6)),
                "kinds": [draw(st.sampled_from(["file", "dir", "tree", "link", "empty"])) for _ in range(6)],
                "prepop": draw(st.sampled_from([0, 0, 1, 3, 100, 101])),
                "orphans": draw(st.lists(st.sampled_from(["payload", "dangling_payload", "info", "dir_payload"]),
                                         max_size=3)),
                "name": draw(st.sampled_from(["foo", "foo", "a b", "x.trashinfo"]) if draw(st.booleans())
                             else gen.names(long_ok=True)),
                "tkind": draw(st.sampled_from(["home", "top_alt", "top_sticky"])),
                # after the first put its .trashinfo is removed (what an interrupted purge leaves):
                # the payload is now an orphan under whatever name trash-put gave it - also a
                # truncated one for names near NAME_MAX - and must survive the following puts
                "orphan_first": draw(st.integers(0, 3)) == 0}
    return {"mode": "sched", "scen": draw(st.sampled_from(SCEN)),
            "segs": [[draw(st.integers(0, 2)), draw(st.integers(0, 25))]
                     for _ in range(draw(st.integers(0, 7)))]}


def strategy(tier):
    return strategy_(tier)


def pairs_in(snap, tdir):
    return oracle.scan_trash(snap, tdir, sandbox.read_bytes)


def judge(out, before, after, tdir, sources, codes, tags):
    """sources: list of source paths (one per put, in any order); codes: exit codes"""
    b = pairs_in(before, tdir)
    a = pairs_in(after, tdir)
    # pre-existing content identical
    for nm, e in b.items():
        for key in ("info", "payload"):
            p = e[key]
            if p is None:
                continue
            if p not in after or subtree(after, p) != subtree(before, p):
                out.fail("old_entry_damaged", "pre-existing %s (%s) was replaced, merged into or "
                         "lost" % (p, key), **tags)
    for nm, e in b.items():
        # an orphan must stay an orphan: a payload without info must not be given somebody else's
        # .trashinfo, an info without payload must not be given somebody else's payload
        if nm in a and e["info"] is None and a[nm]["info"] is not None:
            out.fail("orphan_adopted", "pre-existing payload %s (no .trashinfo) now has an info "
                     "file that describes another entry" % e["payload"], **tags)
        if nm in a and e["payload"] is None and a[nm]["payload"] is not None:
            out.fail("orphan_adopted", "pre-existing info %s (no payload) now has a payload that "
                     "belongs to another entry" % e["info"], **tags)
    new = {nm: e for nm, e in a.items() if nm not in b or
           (b[nm]["info"] is None and e["info"] is not None and b[nm]["payload"] is None) or
           (b[nm]["payload"] is None and e["payload"] is not None and b[nm]["info"] is None)}
    complete = {nm: e for nm, e in new.items() if e["info"] and e["payload"]}
    succ = 0
    claimed = set()
    for src, code in zip(sources, codes):
        sigma = subtree(before, src)
        if code == 0:
            succ += 1
            if src in after:
                out.fail("source_remains", "trash-put of %s exited 0 but the source is still there" % src, **tags)
            mine = [nm for nm, e in complete.items() if nm not in claimed and
                    subtree(after, e["payload"]) == sigma and e["path"] is not None and
                    (sandbox.fsdec(e["path"]) == src or src.endswith("/" + sandbox.fsdec(e["path"])))]
            if not mine:
                out.fail("success_without_pair", "trash-put of %s exited 0 but no complete pair "
                         "holds it (new entries: %s)" % (src, sorted(new)), **tags)
            else:
                claimed.add(mine[0])
        else:
            if subtree(after, src) != sigma:
                out.fail("failed_put_touched_source", "trash-put of %s failed (exit %d) but the "
                         "source changed" % (src, code), **tags)
    extra = [nm for nm in new if nm not in claimed]
    if extra:
        out.fail("unowned_new_entries", "%d successful puts but additional new entries %s "
                 "(incomplete or duplicate)" % (succ, extra), **tags)
    return succ


def world(scen, uid=1000):
    home = "/home/u"
    vols = ["/vol"]
    nodes = []
    tdir = home + "/.local/share/Trash"
    root = home
    if scen in ("topdir_first_use", "same_source"):
        tdir, root = "/vol/.Trash-%d" % uid, "/vol"
    n = 3 if scen == "same3" else 2
    srcs = []
    for i in range(n):
        p = root + "/w%d/foo" % i
        if scen == "file_vs_dir" and i == 1:
            nodes.append({"p": p + "/inner", "t": "f", "c": "dir payload %d" % i})
        else:
            nodes.append({"p": p, "t": "f", "c": "content of process %d" % i})
        srcs.append(p)
    if scen == "same_source":
        # two processes are given the SAME path (a double click, two scripts): one of them loses the
        # race for the rename and fails - it must fail without harming what the other one trashed
        srcs = [srcs[0], srcs[0]]
    if scen not in ("first_use", "topdir_first_use", "same_source"):
        nodes += [{"p": tdir + "/files", "t": "d", "m": 0o700}, {"p": tdir + "/info", "t": "d", "m": 0o700}]
    if scen == "collision100":
        for j in range(100):
            nm = "foo" if j == 0 else "foo_%d" % j
            nodes += gen.trashed_pair_nodes(tdir, nm, b"/old/foo", "2001-01-01T00:00:00", content="old %d" % j)
    spec = {"vols": vols, "nodes": nodes, "env": {"HOME": home}, "uid": uid, "cwd": "/",
            "now": "2022-02-02T02:02:02"}
    prefixes = [home + "/.local", "/vol/.Trash-%d" % uid, "/vol/.Trash"]
    return spec, tdir, srcs, prefixes


def run_case(case):
    out = Outcome()
    mode = case["mode"]
    if mode == "seq":
        return run_seq(out, case)
    if mode == "dense":
        return run_dense(out, case)
    spec, tdir, srcs, prefixes = world(case["scen"])
    sandbox.build_world(spec)
    before = sandbox.snapshot()
    tags = dict(mode=mode, scen=case["scen"])
    if mode == "sched":
        jobs = [("trash-put", [s], {}) for s in srcs]
        results, steps = runner.run_scheduled(spec, jobs, case["segs"], prefixes)
        switches = sum(1 for i in range(1, len(steps)) if steps[i][0] != steps[i - 1][0])
        out.classes += ["scen:" + case["scen"], "steps:%d" % (len(steps) // 10 * 10),
                        "switches:%d" % min(switches, 6)]
    else:
        hs = [runner.spawn(spec, "trash-put", [s]) for s in srcs] if False else None
        k = case["k"]
        extra = []
        import os
        for i in range(k):
            p = "/home/u/par%d/foo" % i
            os.makedirs(sandbox.wp("/home/u/par%d" % i))
            with open(sandbox.wp(p), "w") as f:
                f.write("parallel %d" % i)
            extra.append(p)
        before = sandbox.snapshot()
        srcs = extra
        hs = [runner.spawn(spec, "trash-put", [s]) for s in srcs]
        results = [runner.finish(h) for h in hs]
        steps, switches = [], -1
        out.classes += ["free_running:%d" % k]
    after = sandbox.snapshot()
    codes = [r.code for r in results]
    if case.get("scen") == "same_source" and mode == "sched":
        if all(c == 0 for c in codes):
            out.fail("double_success", "both processes report success for the one entry %s" % srcs[0], **tags)
        srcs, codes = srcs[:1], [0 if any(c == 0 for c in codes) else codes[0]]
    for r in results:
        if r.code not in (0, 74):
            out.fail("process_crashed", "a trash-put process exited %d: %r" % (r.code, r.err[-300:]), **tags)
    succ = judge(out, before, after, tdir, srcs, codes, tags)
    out.classes.append("successes:%d" % succ)
    if succ >= 2 or (succ >= 1 and case.get("scen") == "same_source"):
        shape = [[p, k if k < 1000 else -1] for p, k in case.get("segs", [])]
        out.key = [case["scen"], mode, shape if mode == "sched" else case.get("round")]
        out.sample = {"scenario": case["scen"], "schedule_segments": case.get("segs"),
                      "executed_steps": [[s[0], s[1], s[2]] for s in steps][:60], "exit_codes": codes}
    return out


def run_dense(out, case):
    import os
    home, uid, name = "/home/u", 1000, "foo"
    tk = case["tkind"]
    nodes = []
    if tk == "home":
        tdir, root = home + "/.local/share/Trash", home
    elif tk == "top_alt":
        tdir, root = "/vol/.Trash-%d" % uid, "/vol"
    else:
        nodes += gen.topdir_nodes("/vol", uid, "sticky", "absent")
        tdir, root = "/vol/.Trash/%d" % uid, "/vol"
    srcs = []
    for i in range(case["n"]):
        p = root + "/s%d/%s" % (i, name)
        nodes.append({"p": p, "t": "f", "c": "dense %d" % i})
        srcs.append(p)
    nodes += [{"p": tdir + "/files", "t": "d", "m": 0o700}, {"p": tdir + "/info", "t": "d", "m": 0o700}]
    for j in range(100):
        nm = name if j == 0 else "%s_%d" % (name, j)
        nodes += gen.trashed_pair_nodes(tdir, nm, b"/old/foo", "2001-01-01T00:00:00", content="old %d" % j)
    spec = {"vols": ["/vol"], "nodes": nodes, "env": {"HOME": home}, "uid": uid, "cwd": "/",
            "now": "2022-02-02T02:02:02"}
    sandbox.build_world(spec)
    fdir = sandbox.wp(tdir + "/files")
    dfd = os.open(fdir, os.O_RDONLY | os.O_DIRECTORY)
    try:
        for k in range(100, 65536):
            if k % 8:
                os.close(os.open("%s_%d" % (name, k), os.O_WRONLY | os.O_CREAT | os.O_EXCL, 0o600, dir_fd=dfd))
    finally:
        os.close(dfd)
    before = sandbox.snapshot()
    codes = [runner.run(spec, "trash-put", ["--", s_]).code for s_ in srcs]
    after = sandbox.snapshot()
    tags = dict(mode="dense", tkind=tk)
    changed = [p_ for p_, n_ in before.items() if p_.startswith(tdir + "/") and
               (p_ not in after or sandbox.sig(after[p_], mtime=(n_.t != "d")) != sandbox.sig(n_, mtime=(n_.t != "d")))]
    if changed:
        out.fail("old_entry_damaged", "pre-existing %s were replaced or lost (payloads without "
                 ".trashinfo at pseudo-random suffixes)" % changed[:3], **tags)
    new_i = sorted(p_ for p_ in after if p_ not in before and p_.startswith(tdir + "/info/"))
    new_p = sorted(p_ for p_ in after if p_ not in before and p_.startswith(tdir + "/files/"))
    succ = sum(1 for c_ in codes if c_ == 0)
    if len(new_i) != succ or [x[len(tdir) + 6:-10] for x in new_i] != [x[len(tdir) + 7:] for x in new_p]:
        out.fail("success_without_pair", "%d successful puts but new infos %s / new payloads %s" % (
            succ, [x.rsplit("/", 1)[1] for x in new_i], [x.rsplit("/", 1)[1] for x in new_p]), **tags)
    else:
        want = sorted(sandbox.sig(before[s_], mtime=False) for s_, c_ in zip(srcs, codes) if c_ == 0)
        got = sorted(sandbox.sig(after[x], mtime=False) for x in new_p)
        if want != got:
            out.fail("success_without_pair", "new payloads do not hold the trashed sources", **tags)
    for s_, c_ in zip(srcs, codes):
        if c_ == 0 and s_ in after:
            out.fail("source_remains", "trash-put of %s exited 0 but the source is still there" % s_, **tags)
    out.classes += ["dense:" + tk, "successes:%d" % succ]
    if succ >= 2:
        out.key = ["dense", tk, case.get("round")]
        out.sample = {"mode": "dense", "tkind": tk, "pre-existing pairs": 100,
                      "payloads without info": sum(1 for k in range(100, 65536) if k % 8),
                      "new": [x.rsplit("/", 1)[1] for x in new_p], "exit_codes": codes}
    return out


def run_seq(out, case):
    home = "/home/u"
    vols = ["/vol"]
    uid = 1000
    tk = case["tkind"]
    nodes = []
    if tk == "home":
        tdir, root = home + "/.local/share/Trash", home
    elif tk == "top_alt":
        tdir, root = "/vol/.Trash-%d" % uid, "/vol"
    else:
        nodes += gen.topdir_nodes("/vol", uid, "sticky", "absent")
        tdir, root = "/vol/.Trash/%d" % uid, "/vol"
    name = case["name"]
    n = case["n"]
    srcs = []
    for i in range(n):
        p = root + "/s%d/%s" % (i, name)
        k = case["kinds"][i]
        if k == "file":
            nodes.append({"p": p, "t": "f", "c": "seq %d" % i})
        elif k == "empty":
            nodes.append({"p": p, "t": "f", "c": ""})
        elif k == "dir":
            nodes.append({"p": p, "t": "d", "m": 0o750})
        elif k == "tree":
            nodes.append({"p": p + "/in/ner", "t": "f", "c": "tree %d" % i})
        else:
            nodes.append({"p": p, "t": "l", "to": "target-%d" % i})
        srcs.append(p)
    nodes += [{"p": tdir + "/files", "t": "d", "m": 0o700}, {"p": tdir + "/info", "t": "d", "m": 0o700}]
    short = len(sandbox.fsenc(name)) < 230
    if short:
        for j in range(case["prepop"]):
            nm = name if j == 0 else "%s_%d" % (name, j)
            nodes += gen.trashed_pair_nodes(tdir, nm, b"/old/" + sandbox.fsenc(name),
                                            "2001-01-01T00:00:00", content="old %d" % j)
        base = case["prepop"]
        for j, o in enumerate(case["orphans"]):
            nm = name if (base == 0 and j == 0) else "%s_%d" % (name, base + j)
            if o == "payload":
                nodes.append({"p": tdir + "/files/" + nm, "t": "f", "c": "orphan payload"})
            elif o == "dangling_payload":
                nodes.append({"p": tdir + "/files/" + nm, "t": "l", "to": "/nowhere"})
            elif o == "dir_payload":
                nodes.append({"p": tdir + "/files/" + nm + "/kept", "t": "f", "c": "orphan dir"})
            else:
                nodes.append({"p": tdir + "/info/" + nm + ".trashinfo", "t": "b",
                              "b": list(oracle.make_info(b"/old/x", "2001-01-01T00:00:00"))})
    spec = {"vols": vols, "nodes": nodes, "env": {"HOME": home}, "uid": uid, "cwd": "/",
            "now": "2022-02-02T02:02:02"}
    try:
        sandbox.build_world(spec)
    except OSError:
        out.classes.append("skipped:unbuildable")
        return out
    before = sandbox.snapshot()
    codes = []
    orph = sorted(set(case["orphans"])) if short else []
    if case.get("orphan_first") and len(srcs) >= 2:
        r = runner.run(spec, "trash-put", ["--", srcs[0]])
        mid = sandbox.snapshot()
        infos = [p for p in mid if p not in before and p.startswith(tdir + "/info/")]
        if r.code == 0 and len(infos) == 1:
            import os
            os.remove(sandbox.wp(infos[0]))
            srcs = srcs[1:]
            before = sandbox.snapshot()
            orph = orph + ["first_put_orphaned"]
    tags = dict(mode="seq", prepop=case["prepop"] if short else 0,
                dangling_orphan=("dangling_payload" in orph))
    for s in srcs:
        r = runner.run(spec, "trash-put", ["--", s])
        codes.append(r.code)
    after = sandbox.snapshot()
    succ = judge(out, before, after, tdir, srcs, codes, tags)
    out.classes += ["seq_n:%d" % n, "prepop:%d" % tags["prepop"], "tkind:" + tk,
                    "successes:%d" % succ] + ["orphan:" + o for o in orph]
    if succ >= 2:
        out.key = ["seq", n, case["kinds"][:n], tags["prepop"], orph, tk, gen.name_class(name)]
        out.sample = {"mode": "seq", "name": name, "kinds": case["kinds"][:n], "prepopulated": tags["prepop"],
                      "orphans": orph, "exit_codes": codes}
    return out
