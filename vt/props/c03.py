"""C03 -- every .trashinfo is spec-conformant and decodes back to the exact path and time."""
import re

from hypothesis import strategies as st

from .. import gen, oracle, runner, sandbox
from ..driver import Outcome
from ..sandbox import fsenc

ID = "C03"
LEVEL = "exploration"
RULE = ("Hypothesis generates a location (1-4 nested directory names and a final name from a "
        "weighted byte alphabet: specials, control bytes, %-sequences, multi-byte UTF-8, optionally "
        "invalid UTF-8), an entry kind, a trash-dir kind (home / $topdir/.Trash/$uid / "
        "$topdir/.Trash-$uid / --trash-dir through a symlink into the file's volume), a mount-point name, a time zone and a clock value; real trash-put runs, then the BYTES of the new "
        ".trashinfo are judged by an RFC 2396 conformance predicate and by an own byte-level "
        "percent-decoder (must equal the original location: absolute in the home trash, relative "
        "to $topdir without '..' otherwise); date == virtual clock; then trash-list, "
        "trash-restore (listing) and trash-rm (exact escaped pattern) must read back exactly that "
        "path/date. Additionally format/parse functions are round-tripped directly on generated "
        "strings. Non-trivial: some name contains a byte outside [A-Za-z0-9._-]; distinct by "
        "(byte-class set, trash-dir kind, depth, length bucket).")
ASSUMPTIONS = ["stdout of the commands is UTF-8 with strict error handling (typical UTF-8 locale)"]


def examples(tier):
    return 6000 if tier == "quick" else 80000


@st.composite
def strategy_(draw, tier):
    raw = draw(st.integers(0, 9)) == 0
    depth = draw(st.integers(0, 3))
    comps = [draw(gen.names(raw=raw, long_ok=(i == depth))) for i in range(depth + 1)]
    if draw(st.integers(0, 24)) == 0:
        # a deep location whose escaped form is several kB long (every byte becomes %XX),
        # still far below PATH_MAX: 5-8 directories named with 60-100 multi-byte characters
        ch = draw(st.sampled_from(["\u6587", "\u00e9", " ", "%"]))
        comps = [ch * draw(st.integers(60, 80)) + str(i) for i in range(draw(st.integers(5, 8)))] + comps[-1:]
    tkind = draw(st.sampled_from(["home", "home", "home", "top_sticky", "top_sticky", "top_alt", "top_alt",
                                  "trash_dir_link"]))
    kind = draw(st.sampled_from(["file", "empty", "dir", "link_dangling"]))
    secs = draw(st.one_of(st.integers(0, 4 * 10 ** 9), st.sampled_from(
        [0, 59, 86399, 951782400, 68169599, 252455615999 - 946684800])))
    fn_paths = draw(st.lists(st.lists(gen.names(raw=False), min_size=1, max_size=4), max_size=3))
    return {"comps": comps, "tkind": tkind, "kind": kind, "secs": secs, "raw": raw,
            "fn_paths": fn_paths, "uid": draw(st.sampled_from([1000, 0, 70000])),
            "spell": draw(st.sampled_from(["abs", "abs", "rel", "rel", "slash", "slash", "deepcwd"])),
            # (fixed offsets, and POSIX rules with daylight saving time, north and south)
            "tz": draw(st.sampled_from([None, None, 9, -8, 5.5, "CET-1CEST,M3.5.0,M10.5.0/3",
                                        "EST5EDT,M3.2.0,M11.1.0", "AEST-10AEDT,M10.1.0,M4.1.0/3"])),
            # the mount point's own path occurs again deeper inside the location (a backup / mirror
            # of the volume kept on the volume)
            "mirror": draw(st.integers(0, 5)) == 0,
            # the mount point's own name may contain what looks like an escape, blanks, non-ASCII
            "vol": draw(st.sampled_from(["/vol", "/vol", "/vol", "/media/usb%41", "/mnt/my disk",
                                         "/mnt/d\u00efsk%2F", "/v%"]))}


def strategy(tier):
    return strategy_(tier)


_LINE3 = re.compile(rb"^DeletionDate=\d{4}-\d\d-\d\dT\d\d:\d\d:\d\d$")


def glob_escape(s):
    out = []
    for ch in s:
        out.append("[" + ch + "]" if ch in "*?[" else ch)
    return "".join(out)


def run_case(case):
    out = Outcome()
    uid = case["uid"]
    home = "/home/u"
    V = case.get("vol", "/vol")
    vols = [V]
    base = home + "/w" if case["tkind"] == "home" else V + "/w"
    d = base
    if case["spell"] == "deepcwd":   # a location deeper than PATH_MAX, named relative to the cwd
        d = d + "".join("/%02d" % j + "d" * 240 for j in range(17))
    if case.get("mirror") and case["tkind"] != "home":
        d = d + V
    for c in case["comps"][:-1]:
        d = d + "/" + c
    e = d + "/" + case["comps"][-1]
    nodes = [{"p": d, "t": "d"}]
    if case["tkind"] == "top_sticky":
        nodes += gen.topdir_nodes(V, uid, "sticky", "absent")
    TD = home + "/usb-trash"
    if case["tkind"] == "trash_dir_link":
        # --trash-dir named through a symlink on the home volume that leads to a directory of the
        # file's volume: whatever form the Path takes, the readers given the same --trash-dir must
        # decode it to the original location
        nodes += [{"p": V + "/My Trash", "t": "d"}, {"p": TD, "t": "l", "to": V + "/My Trash"}]
    if case["kind"] in ("file", "empty"):
        nodes.append({"p": e, "t": "f", "c": "x" if case["kind"] == "file" else ""})
    elif case["kind"] == "dir":
        nodes.append({"p": e + "/inner", "t": "f", "c": "i"})
    else:
        nodes.append({"p": e, "t": "l", "to": "nowhere"})
    now = gen.date_str(case["secs"])
    spec = {"vols": vols, "nodes": nodes, "env": {"HOME": home}, "uid": uid, "cwd": d, "now": now,
            "tz": case.get("tz")}
    ncls = "+".join(sorted(set("+".join(gen.name_class(c) for c in case["comps"]).split("+"))))
    tags = dict(tkind=case["tkind"], nonutf8=("nonutf8" in ncls))
    try:
        sandbox.build_world(spec)
    except OSError as ex:  # path too long for the host file system: not a case
        out.classes.append("skipped:unbuildable")
        return out
    arg = {"abs": e, "rel": "./" + case["comps"][-1], "slash": e + "/",
           "deepcwd": "./" + case["comps"][-1]}[case["spell"]]
    if case["kind"] not in ("dir",) and case["spell"] == "slash":
        arg = e
    before = sandbox.snapshot()
    tdopt = ["--trash-dir", TD] if case["tkind"] == "trash_dir_link" else []
    res = runner.run(spec, "trash-put", tdopt + ["--", arg])
    after = sandbox.snapshot()
    tdir = {"home": home + "/.local/share/Trash", "top_sticky": V + "/.Trash/%d" % uid,
            "top_alt": V + "/.Trash-%d" % uid, "trash_dir_link": V + "/My Trash"}[case["tkind"]]
    new_infos = [p for p in after if p.startswith(tdir + "/info/") and p not in before]
    out.classes += ["tkind:" + case["tkind"], "kind:" + case["kind"], "exit:%d" % res.code,
                    "names:" + ncls, "spell:" + case["spell"]]
    if res.code != 0 or len(new_infos) != 1:
        out.fail("put_failed", "trash-put of %r: exit %d, %d new info files in %s; stderr %r" % (
            arg, res.code, len(new_infos), tdir, res.err[-300:]), **tags)
        return finish(out, case, ncls)
    ip = new_infos[0]
    raw = sandbox.read_bytes(ip)
    lines = raw.split(b"\n")
    expected_abs = fsenc(e)
    expected = expected_abs if case["tkind"] == "home" else expected_abs[len(fsenc(V)) + 1:]
    # ---- conformance of the bytes
    if not (len(lines) >= 3 and lines[0] == b"[Trash Info]"):
        out.fail("header", "first line is %r" % lines[:1], **tags)
    elif not lines[1].startswith(b"Path="):
        out.fail("path_line", "second line is %r" % lines[1][:80], **tags)
    else:
        val = lines[1][5:]
        if not oracle.path_value_is_conformant(val):
            out.fail("path_not_escaped", "Path value %r contains bytes that must be escaped" % val,
                     **tags)
        dec = oracle.pct_decode(val)
        if case["tkind"] == "trash_dir_link":
            pass    # absolute or relative: judged through the readers below
        elif dec != expected:
            out.fail("path_roundtrip", "Path decodes to %r, original location is %r" % (
                dec, expected), **tags)
        if case["tkind"] not in ("home", "trash_dir_link") and (val.startswith(b"/") or b".." in dec.split(b"/")):
            out.fail("path_not_relative", "Path in a $topdir trash is %r" % val, **tags)
        if case["tkind"] == "home" and not val.startswith(b"/"):
            out.fail("path_not_absolute", "Path in the home trash is %r" % val, **tags)
        if not _LINE3.match(lines[2]):
            out.fail("date_line", "third line is %r" % lines[2][:80], **tags)
        elif lines[2][13:] != now.encode():
            out.fail("date_value", "DeletionDate %r, clock said %r" % (lines[2][13:], now), **tags)
        if raw != b"\n".join(lines[:3]) + b"\n":
            out.fail("extra_content", "unexpected trailing content %r" % raw[-40:], **tags)
    # ---- the three readers
    shown = now.replace("T", " ") + " " + e
    r = runner.run(spec, "trash-list", tdopt, cwd="/")
    if r.out != shown + "\n" or r.code != 0:
        out.fail("list_readback", "trash-list printed %r (exit %d, stderr %r), expected %r" % (
            r.out, r.code, r.err[-200:], shown), **tags)
    r = runner.run(spec, "trash-restore", tdopt + ["/"], cwd=V, stdin="")
    if not r.out.startswith("   0 " + shown + "\n"):
        out.fail("restore_readback", "trash-restore listed %r (stderr %r), expected %r" % (
            r.out[:200], r.err[-200:], "   0 " + shown), **tags)
    if tdopt and case["spell"] == "deepcwd":
        fn_level(out, case, tags)     # (no system call can name a restore destination that deep)
        return finish(out, case, ncls)
    if tdopt:       # (trash-rm has no --trash-dir: restore the entry through the same option instead)
        r = runner.run(spec, "trash-restore", tdopt + ["/"], cwd=V, stdin="0\n")
        final = sandbox.snapshot()
        if ip in final or sandbox.subtree(final, e, mtime=False) != sandbox.subtree(before, e, mtime=False):
            out.fail("restore_roundtrip", "trash-restore --trash-dir did not bring %r back to its "
                     "original location (exit %d, stderr %r)" % (e, r.code, r.err[-200:]), **tags)
        fn_level(out, case, tags)
        return finish(out, case, ncls)
    r = runner.run(spec, "trash-rm", [glob_escape(e)], cwd="/")
    final = sandbox.snapshot()
    if ip in final or any(p.startswith(tdir + "/files/") for p in final):
        out.fail("rm_readback", "trash-rm %r did not remove the entry (exit %d, stderr %r)" % (
            glob_escape(e), r.code, r.err[-200:]), **tags)
    # ---- function level round trip (pure codecs), many strings per case
    fn_level(out, case, tags)
    return finish(out, case, ncls)


def fn_level(out, case, tags):
    try:
        from trashcli.put.format_trash_info import format_trashinfo
        from trashcli.parse_trashinfo.parse_path import parse_path
        from trashcli.parse_trashinfo.parse_deletion_date import parse_deletion_date
    except ImportError:
        out.classes.append("fn_level:unavailable")
        return
    import datetime
    from .. import shim
    for comps in case["fn_paths"] + [case["comps"]]:
        loc = "/" + "/".join(comps)
        try:
            loc.encode("utf-8")
        except UnicodeEncodeError:
            continue
        when = shim._real_datetime(2000, 1, 1) + datetime.timedelta(seconds=case["secs"])
        try:
            blob = format_trashinfo(loc, when)
            text = blob.decode("utf-8") if isinstance(blob, bytes) else blob
            back = parse_path(text)
            d = parse_deletion_date(text)
        except Exception as ex:
            out.fail("fn_exception", "codec raised %r on %r" % (ex, loc), **tags)
            continue
        out.classes.append("fn_level:roundtrip")
        if back != loc:
            out.fail("fn_roundtrip", "parse_path(format(%r)) == %r" % (loc, back), **tags)
        if d is None or d.replace(microsecond=0) != when.replace(microsecond=0):
            out.fail("fn_date", "date %r read back as %r" % (when, d), **tags)
        line = text.split("\n")[1]
        if not oracle.path_value_is_conformant(line[5:].encode("utf-8")):
            out.fail("fn_not_escaped", "Path line %r" % line, **tags)


def finish(out, case, ncls):
    if ncls not in ("plain",):
        out.key = [ncls, case["tkind"], case.get("vol", "/vol"), len(case["comps"]),
                   min(len(fsenc(case["comps"][-1])) // 64, 3), case["kind"]]
        out.sample = {"comps": case["comps"], "tkind": case["tkind"], "kind": case["kind"],
                      "secs": case["secs"]}
    return out
