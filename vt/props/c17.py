"""C17 -- under file-system errors trash-put terminates, falls back, and reports honestly."""
import errno

from hypothesis import strategies as st

from .. import gen, oracle, putcheck, runner, sandbox
from ..driver import Outcome
from . import c05

ID = "C17"
LEVEL = "fault_enumeration"
RULE = ("Hypothesis generates a scenario (entry kinds; home / $topdir/.Trash/$uid / "
        "$topdir/.Trash-$uid / home-fallback candidates; first use, existing, collision), an errno "
        "from {EACCES, EPERM, EROFS, ENOSPC, EIO, ENAMETOOLONG, EEXIST, ENOENT, EDQUOT, EMFILE, "
        "ENOTDIR, EBUSY} and a mode {one-shot, persistent for the same (operation, path), persistent for the same operation on every path of that directory}. A "
        "fault-free interposed run records ALL N operations (reads included: stat, lstat, access, "
        "listdir, readlink, open ...); then for EVERY k in 1..N the k-th operation is made to "
        "fail with that errno (for close: the descriptor is closed, then the error raised). "
        "Generated PAIRS of faults are added per case. Oracle per run: terminates within an "
        "operation budget of 20*N+2000 operations (a wall-clock backstop hit without operations "
        "is reported as inconclusive, never as a violation); outcome is {trashed, exit 0} or "
        "{exit != 0 and a diagnostic on stderr}; the final state satisfies C01 (each entry fully "
        "trashed or untouched, no stray .trashinfo, no orphan payload, frame unchanged; and, as a "
        "separate clause, a complete copy of every entry exists somewhere). "
        "Non-trivial: the fault hits an operation of the run; distinct by (scenario class, "
        "operation kind, errno, mode, outcome).")
ASSUMPTIONS = ["directory-wide persistence is not combined with EEXIST (retrying another name is the "
               "designed reaction to 'this name exists')",
               "errors are injected at the Python os.* boundary; errno/operation combinations the "
               "kernel never produces are included because the statement says 'whatever error'",
               "when the failing operation is the directory scan of shutil's cross-device fallback, "
               "only termination + no-loss are required"]

ERRNOS = ["EACCES", "EPERM", "EROFS", "ENOSPC", "EIO", "ENAMETOOLONG", "EEXIST", "ENOENT",
          "EDQUOT", "EMFILE", "ENOTDIR", "EBUSY"]


def examples(tier):
    return 208 if tier == "quick" else 4000


@st.composite
def strategy_(draw, tier):
    base = draw(c05.strategy_(tier))
    base["ents"] = base["ents"][:2]
    for e in base["ents"]:
        e["big"] = False
        if e["kind"] == "fifo":
            # (a fault on the stat with which shutil.copyfile recognises special files makes the
            # cross-device copy open(2) the fifo and block until the harness alarm: 20 s per run,
            # reported as inconclusive; fifos stay in C05, which injects no errors)
            e["kind"] = "file"
    if base["state"] == "collision100":
        base["state"] = "collision"
    base["errno"] = draw(st.sampled_from(ERRNOS))
    base["persistent"] = draw(st.booleans())
    # persistent faults hit the same (operation, path) again - or, scope "dir", the same operation
    # on EVERY path of that directory (a full / read-only / name-limited directory)
    base["scope"] = draw(st.sampled_from(["path", "dir"]))
    if base["errno"] == "EEXIST":
        # "this name exists" for EVERY name of a directory is not an answer a file system gives;
        # trying the next name is the designed reaction to EEXIST, so that combination is not judged
        base["scope"] = "path"
    base["pairs"] = draw(st.lists(st.tuples(st.integers(1, 200), st.integers(1, 200),
                                            st.sampled_from(ERRNOS)), max_size=3))
    return base


def strategy(tier):
    return strategy_(tier)


def judge(out, case, spec, files, before, after, res, tags, what, n_ref):
    if res.code == 98:
        out.fail("did_not_terminate", "%s: trash-put exceeded the budget of %d operations "
                 "(last ops %s)" % (what, 20 * n_ref + 2000, [t[2:4] for t in res.trace[-3:]]), **tags)
        return "loop"
    if res.signal is not None:
        out.classes.append("inconclusive:signal")
        return "signal"
    pa = putcheck.PutAnalysis(before, after, sandbox.read_bytes, spec["vols"])
    all_t = True
    for f in files:
        s, info = pa.state_of(f)
        if s == "X":
            out.fail("not_conserved", "%s: %s: %s (exit %d)" % (what, f, info, res.code), **tags)
            # stronger than "neither T nor U": is a complete copy of the entry left ANYWHERE?
            sigma = sandbox.subtree(before, f, mtime=False)
            top = before[f].t if f in before else None
            if top and not any(n.t == top and sandbox.subtree(after, p, mtime=False) == sigma
                               for p, n in after.items()):
                out.fail("data_lost", "%s: no complete copy of %s exists anywhere afterwards "
                         "(exit %d)" % (what, f, res.code), **tags)
        all_t = all_t and s == "T"
    si, sp = pa.leftovers()
    # an info file whose REMOVAL was itself answered with an injected error cannot be cleaned up by
    # anybody: leaving it behind (with failure reported) is the best possible outcome
    # (the clean-up probes the file with lstat before unlinking it: an error there counts as well)
    unremovable = {t[3][0] for t in res.trace if t[2] in ("unlink", "remove", "lstat", "stat", "access") and
                   str(t[4]).startswith("FAULT") and t[3]}
    si = [p for p in si if p not in unremovable]
    if si:
        out.fail("stray_info", "%s: stray .trashinfo %s (exit %d)" % (what, si[:2], res.code), **tags)
    if sp:
        out.fail("orphan_payload", "%s: orphan payload %s (exit %d)" % (what, sp[:2], res.code), **tags)
    lost, changed, new = pa.frame(files)
    if lost or changed:
        out.fail("frame", "%s: lost %s changed %s" % (what, lost[:3], changed[:3]), **tags)
    if new:
        out.fail("frame_new", "%s: unexpected new paths %s" % (what, new[:3]), **tags)
    if res.code == 0 and not all_t and "-f" not in case["opts"]:
        out.fail("silent_failure", "%s: exit 0 but not every entry was trashed" % what, **tags)
    if res.code != 0 and not res.err.strip():
        out.fail("no_diagnostic", "%s: exit %d without a message" % (what, res.code), **tags)
    if res.code != 0 and all_t:
        out.fail("failure_but_trashed", "%s: exit %d although every entry was trashed" % (
            what, res.code), **tags)
    return "trashed" if all_t else "refused"


def run_case(case):
    out = Outcome()
    spec, opts, files, tdir = c05.build(case)
    sandbox.build_world(spec)
    before = sandbox.snapshot()
    ref = runner.run(spec, "trash-put", opts + ["--"] + files, plan={"full_trace": True})
    n = ref.n_all
    ops = ref.trace
    en = getattr(errno, case["errno"])
    mode = ("persistent_dir" if case.get("scope") == "dir" else "persistent") if case["persistent"] else "once"
    scen = "%s/%s" % (case["target"], case["state"])
    out.classes += ["target:" + case["target"], "state:" + case["state"], "errno:" + case["errno"],
                    "mode:" + mode, "ops:%d" % (n // 20 * 20)]
    special_xdev = any(e["kind"] == "fifo" for e in case["ents"]) and \
        ("fallback" in case["target"] or case["target"].endswith("_fb"))
    if ref.code != 0 and not special_xdev:
        out.fail("reference_run_failed", "fault-free run failed: %r" % ref.err[-200:])
        return out
    budget = 20 * n + 2000
    plans = [({"faults": [{"k": k, "errno": en, "persistent": case["persistent"],
                           "scope": case.get("scope", "path")}]},
              ops[k - 1][2] if k - 1 < len(ops) else "?", k) for k in range(1, n + 1)]
    for (k1, k2, e2) in case["pairs"]:
        a, b = sorted((k1 % n + 1, k2 % n + 1))
        if a != b:
            plans.append(({"faults": [{"k": a, "errno": en}, {"k": b, "errno": getattr(errno, e2)}]},
                          "pair:" + (ops[a - 1][2] if a - 1 < len(ops) else "?"), a))
    for plan, opname, k in plans:
        sandbox.build_world(spec)
        plan["budget"] = budget
        plan["alarm"] = 20
        r = runner.run(spec, "trash-put", opts + ["--"] + files, plan=plan)
        after = sandbox.snapshot()
        pathcls = "info" if k - 1 < len(ops) and "/info/" in str(ops[k - 1][3][:1]) else \
            "files" if k - 1 < len(ops) and "/files/" in str(ops[k - 1][3][:1]) else "other"
        # did this run enter the cross-device copy+delete fallback (a rename answered EXDEV)?
        xdev = any(t[2] in ("rename", "replace") and t[4] == "E18" for t in r.trace)
        # ... and did an injected fault fire AFTER that point, i.e. inside the copy + delete?
        first_x = next((i for i, t in enumerate(r.trace) if t[2] in ("rename", "replace") and t[4] == "E18"),
                       len(r.trace))
        xdev_fault = any(str(t[4]).startswith("FAULT") for t in r.trace[first_x + 1:])
        tags = dict(op=opname.replace("pair:", ""), mode="pair" if opname.startswith("pair") else mode,
                    errno=case["errno"], pathcls=pathcls, target=case["target"], xdev=xdev,
                    xdev_fault=xdev_fault)
        what = "%s on op %d/%d (%s %s), %s" % (case["errno"], k, n, opname,
                                              ops[k - 1][3][:1] if k - 1 < len(ops) else "", tags["mode"])
        oc = judge(out, case, spec, files, before, after, r, tags, what, n)
        out.classes.append("fault_on:" + opname)
        out.classes.append("outcome:" + oc)
        out.keys.append([scen, opname, case["errno"], tags["mode"], oc])
        if len(out.fails) > 6:
            break
    out.sample = {"scenario": scen, "argv": opts + files, "errno": case["errno"], "mode": mode,
                  "operations": n, "ops": [[t[2], t[3][0] if t[3] else None] for t in ops][:25]}
    return out
