"""C06 -- trash-restore never clobbers an existing destination unless --overwrite is given."""
from hypothesis import strategies as st

from .. import gen, runner, sandbox
from ..driver import Outcome
from ..sandbox import subtree

ID = "C06"
LEVEL = "exploration"
EXHAUSTIVE_GRID = True
RULE = ("Grid, enumerated exhaustively on every run: destination kind {regular file, empty dir, "
        "non-empty dir, symlink->file, symlink->dir, dangling symlink, absent, set-uid file, set-gid dir, fifo} x trashed entry kind "
        "{file, empty, tree, symlink->file, dangling symlink} x --overwrite on/off x selection "
        "{single index, two indices conflict-first, two indices conflict-last, two entries with the "
        "SAME original location selected together - with the parent directory present or "
        "removed -} (350 cells), the recorded Path with a trailing slash or '..', and the original "
        "location deeper than PATH_MAX (35 cells); plus "
        "a Hypothesis campaign over the same cells with generated names, contents and trash-dir "
        "kinds. Oracle from lstat snapshots: without --overwrite an existing destination is "
        "unchanged, exit != 0, message on stderr, pair still in the trash; with --overwrite a "
        "non-directory destination is replaced by exactly the trashed entry and the pair is gone; "
        "in every cell the trashed entry is never lost. Non-trivial: destination exists; distinct "
        "by (dest kind, entry kind, overwrite, selection, trash-dir kind, name class).")
ASSUMPTIONS = ["with --overwrite and a directory at the destination only the no-loss frame is asserted"]

DESTS = ["file", "dir_empty", "dir_nonempty", "link_file", "link_dir", "link_dangling", "absent",
         "file_setuid", "dir_setgid", "fifo"]
KINDS = ["file", "empty", "tree", "link_file", "link_dangling"]
SELS = ["single", "multi_conflict_first", "multi_conflict_last", "multi_same_dest",
        "multi_same_dest_parent_missing"]


def examples(tier):
    return 3000 if tier == "quick" else 80000


def cell(dest, kind, overwrite, sel, name="target", tkind="home", content="trashed-content",
         other="free", pslash=False, deep=False):
    return {"dest": dest, "kind": kind, "overwrite": overwrite, "sel": sel, "name": name,
            "tkind": tkind, "content": content, "other": other, "pslash": pslash, "deep": deep}


def grid(tier):
    g = [cell(d, k, o, s) for d in DESTS for k in KINDS for o in (False, True) for s in SELS]
    # the recorded Path written with a trailing slash (other implementations do that for directories)
    g += [cell(d, k, False, "single", pslash=True) for d in DESTS for k in KINDS]
    g += [cell(d, k, False, "single", pslash=ps) for d in DESTS for k in KINDS
          for ps in ("dotdot_missing", "dotdot_existing")]
    # the original location lies deeper than PATH_MAX (every component within NAME_MAX)
    g += [cell(d, k, False, "single", deep=True) for d in DESTS for k in KINDS]
    return g


@st.composite
def strategy_(draw, tier):
    return cell(draw(st.sampled_from(DESTS)), draw(st.sampled_from(KINDS)), draw(st.booleans()),
                draw(st.sampled_from(SELS)), draw(gen.names(long_ok=False)),
                draw(st.sampled_from(["home", "top_alt", "top_sticky"])),
                draw(st.text(alphabet="abc\n", min_size=1, max_size=8)),
                draw(gen.names(simple=True)),
                draw(st.sampled_from([False, False, False, False, True, "dotdot_missing", "dotdot_existing"])),
                draw(st.integers(0, 11)) == 0)


def strategy(tier):
    return strategy_(tier)


def run_case(case):
    out = Outcome()
    vols = ["/vol"]
    home = "/home/u"
    tw = gen.TrashWorld(vols, home, 1000)
    if case["tkind"] == "home":
        tdir, base, wd = tw.home_trash(), None, home + "/w"
    else:
        tdir, base = tw.top_trash("/vol", "sticky" if case["tkind"] == "top_sticky" else "alt"), "/vol"
        wd = "/vol/w"
    deep = bool(case.get("deep")) and case["sel"] == "single" and not case["overwrite"] \
        and not case.get("pslash")
    if deep:
        # > 4096 bytes: no single system call can name the destination, yet it exists
        wd = wd + "".join("/" + ("%02d" % i) + "d" * 240 for i in range(17))
    tw.nodes.append({"p": wd, "t": "d"})
    tw.nodes.append({"p": wd + "/zz-linktarget-file", "t": "f", "c": "link target"})
    tw.nodes.append({"p": wd + "/zz-linktarget-dir/keep", "t": "f", "c": "keep me"})
    dest = wd + "/" + case["name"]
    pv = None
    if case.get("pslash") and (case["sel"] != "single" or case["overwrite"]):
        case = dict(case, pslash=False)   # the slash form is only judged for plain single restores
    if case.get("pslash"):
        from ..sandbox import fsenc
        shown = dest
        if case["pslash"] == "dotdot_missing":     # <wd>/no-such-dir/../name
            shown = wd + "/no-such-dir/../" + case["name"]
        elif case["pslash"] == "dotdot_existing":  # <wd>/zz-linktarget-dir/../name
            shown = wd + "/zz-linktarget-dir/../" + case["name"]
        pv = fsenc(shown if base is None else shown[len(base.rstrip("/")) + 1:])
        if case["pslash"] is True:
            pv += b"/"
    e = tw.add(tdir, base, dest, "2020-01-02T00:00:00", kind=case["kind"], content=case["content"],
               path_value=pv,
               link_to={"link_file": "zz-linktarget-file", "link_dangling": "gone"}.get(case["kind"], "x"))
    d = case["dest"]
    if d == "file":
        tw.nodes.append({"p": dest, "t": "f", "c": "existing", "m": 0o604})
    elif d == "file_setuid":      # special mode bits: still just a file / a directory in the way
        tw.nodes.append({"p": dest, "t": "f", "c": "existing", "m": 0o4755})
    elif d == "dir_setgid":
        tw.nodes.append({"p": dest + "/precious", "t": "f", "c": "precious"})
        tw.nodes.append({"p": dest, "t": "d", "m": 0o2775})
    elif d == "fifo":
        tw.nodes.append({"p": dest, "t": "p", "m": 0o644})
    elif d == "dir_empty":
        tw.nodes.append({"p": dest, "t": "d", "m": 0o751})
    elif d == "dir_nonempty":
        tw.nodes.append({"p": dest + "/precious", "t": "f", "c": "precious"})
    elif d == "link_file":
        tw.nodes.append({"p": dest, "t": "l", "to": "zz-linktarget-file"})
    elif d == "link_dir":
        tw.nodes.append({"p": dest, "t": "l", "to": "zz-linktarget-dir"})
    elif d == "link_dangling":
        tw.nodes.append({"p": dest, "t": "l", "to": "does-not-exist"})
    others = []
    twin = None
    if case["sel"].startswith("multi_same_dest") and case["dest"] == "absent":
        # a second, newer version of the same path: whichever is restored first, the other one
        # finds its destination occupied and must be refused
        twin = tw.add(tdir, base, dest, "2020-01-05T00:00:00", kind="file", content="newer version")
    elif case["sel"] in ("multi_conflict_first", "multi_conflict_last"):
        oname = "other-" + case["other"]
        if oname == case["name"]:
            oname += "2"
        # the second entry has a free destination; dates decide the index order (--sort date)
        odate = "2020-01-03T00:00:00" if case["sel"] == "multi_conflict_first" else "2020-01-01T00:00:00"
        others.append(tw.add(tdir, base, wd + "/" + oname, odate, kind="file", content="second"))
    spec = tw.spec(cwd="/" if deep else wd)
    sandbox.build_world(spec)
    if case["sel"] == "multi_same_dest_parent_missing" and d == "absent":
        import shutil
        shutil.rmtree(sandbox.wp(wd))
        spec = dict(spec, cwd="/")
    before = sandbox.snapshot()
    reply = "0,1\n" if (twin is not None or others) else "0\n"
    args = (["--overwrite"] if case["overwrite"] else [])
    res = runner.run(spec, "trash-restore", args + (["/"] if spec["cwd"] == "/" else []), stdin=reply)
    after = sandbox.snapshot()
    tags = dict(dest=d, entry=case["kind"], overwrite=case["overwrite"], sel=case["sel"],
                pslash=str(case.get("pslash") or False), deep=deep)
    sigma = subtree(before, e["payload"])
    in_trash = (e["info"] in after and subtree(after, e["payload"]) == sigma and
                sandbox.sig(after[e["info"]]) == sandbox.sig(before[e["info"]]))
    at_dest = subtree(after, dest) == sigma and dest in after
    out.classes += ["dest:" + d, "entry:" + case["kind"], "overwrite:%s" % case["overwrite"],
                    "sel:" + case["sel"], "exit:%d" % res.code, "tkind:" + case["tkind"],
                    "deep:%s" % deep]
    if d != "absent" and not case["overwrite"]:
        if subtree(after, dest) != subtree(before, dest):
            out.fail("destination_clobbered", "existing %s at %s was changed by a restore without "
                     "--overwrite (exit %d): before %s after %s" % (
                         d, dest, res.code, sorted(subtree(before, dest).items())[:2],
                         sorted(subtree(after, dest).items())[:2]), **tags)
        if not in_trash:
            out.fail("refused_entry_left_trash", "entry not intact in the trash after a refused "
                     "restore (exit %d)" % res.code, **tags)
        if res.code == 0:
            out.fail("refusal_exit_zero", "exit status 0 although the destination exists", **tags)
        if not res.err.strip():
            out.fail("refusal_no_message", "no message on stderr", **tags)
    elif d == "absent" and twin is not None:
        # exactly one of the two versions is restored, the other one stays intact in the trash,
        # and the run reports the refusal
        s2 = subtree(before, twin["payload"])
        twin_in_trash = twin["info"] in after and subtree(after, twin["payload"]) == s2
        twin_at_dest = subtree(after, dest) == s2 and twin["info"] not in after
        ok = (at_dest and twin_in_trash and not in_trash) or (twin_at_dest and in_trash)
        if not ok and not case["overwrite"]:
            out.fail("same_dest_clobbered", "two entries with the same original location selected "
                     "together: one must be restored and the other refused and kept; got first "
                     "(trash %s, dest %s) second (trash %s, dest %s), exit %d, stderr %r" % (
                         in_trash, at_dest, twin_in_trash, twin_at_dest, res.code, res.err[-200:]), **tags)
        if not case["overwrite"] and res.code == 0:
            out.fail("refusal_exit_zero", "exit status 0 although the second entry's destination "
                     "was occupied by the first", **tags)
        if case["overwrite"] and case["kind"] != "tree" and not (at_dest or twin_at_dest):
            # (with a directory restored first, --overwrite of the second version goes onto a
            # directory, which the statement leaves open)
            out.fail("entry_lost", "--overwrite with two versions: neither is at the destination", **tags)
    elif d == "absent" and case.get("pslash"):
        # ('x/' denotes a directory: the entry may legitimately land inside a created x/)
        if not (in_trash or at_dest or any(subtree(after, p) == sigma for p in after if p.startswith(wd))):
            out.fail("entry_lost", "Path with trailing slash, free destination: entry neither in "
                     "the trash nor restored", **tags)
    elif d == "absent" and deep:
        # (a location nothing can name: restoring there may fail; the entry must not be lost)
        if not (in_trash or at_dest):
            out.fail("entry_lost", "destination deeper than PATH_MAX: entry neither in the trash "
                     "nor restored (exit %d)" % res.code, **tags)
    elif d == "absent":
        if not (at_dest and e["info"] not in after and e["payload"] not in after and res.code == 0):
            out.fail("control_not_restored", "free destination: entry not restored exactly "
                     "(exit %d, stderr %r)" % (res.code, res.err[-200:]), **tags)
    else:  # overwrite
        if d.startswith("dir"):
            found = in_trash or at_dest or subtree(after, dest + "/" + e["name"]) == sigma
            if not found:
                out.fail("entry_lost", "--overwrite onto a directory: trashed entry neither in the "
                         "trash nor at/inside the destination", **tags)
        else:
            if not at_dest:
                out.fail("overwrite_not_replaced", "--overwrite: destination %s (%s) is not the "
                         "restored entry afterwards (exit %d, stderr %r); in trash: %s" % (
                             dest, d, res.code, res.err[-200:], in_trash), **tags)
            elif e["info"] in after or e["payload"] in after:
                out.fail("overwrite_pair_remains", "--overwrite replaced the destination but the "
                         "pair is still in the trash", **tags)
        if not (in_trash or at_dest or any(
                subtree(after, p) == sigma for p in after if p.startswith(wd))):
            out.fail("entry_lost", "trashed entry vanished", **tags)
    # bystanders: link targets untouched, second entry never lost
    for p in (wd + "/zz-linktarget-file", wd + "/zz-linktarget-dir"):
        if subtree(after, p) != subtree(before, p) and not (case["overwrite"] and d == "link_dir"
                                                            and p.endswith("dir")):
            out.fail("link_target_changed", "%s changed" % p, **tags)
    for o in others:
        s2 = subtree(before, o["payload"])
        ok_trash = o["info"] in after and subtree(after, o["payload"]) == s2
        ok_dest = subtree(after, o["orig"]) == s2
        if ok_trash == ok_dest:
            out.fail("second_entry_lost", "second selected entry is neither intact in the trash "
                     "nor restored (or both)", **tags)
    if d != "absent" or twin is not None:
        out.key = [d, case["kind"], case["overwrite"], case["sel"], case["tkind"],
                   gen.name_class(case["name"]), str(case.get("pslash") or False), deep]
        out.sample = dict(case, exit=res.code)
    return out
