"""Private mount namespace, tmpfs worlds and lstat-level snapshots.

Every shard process calls enter_namespace() once: it unshares the mount
namespace, so every tmpfs mounted afterwards is invisible to the rest of the
system and disappears with the process.  A *world* is a fresh tmpfs mounted at
W with further tmpfs volumes mounted inside it; commands are run chroot()ed into
W (runner.py), so inside a command the world root is literally "/".
"""
import ctypes
import hashlib
import os
import stat
from collections import namedtuple

libc = ctypes.CDLL(None, use_errno=True)
MS_REC, MS_PRIVATE = 16384, 1 << 18
MNT_DETACH = 2
BASE = "/tmp/vtb"
W = BASE + "/w"
_entered = False


class HarnessError(Exception):
    """Raised when the harness itself (not trash-cli) cannot do its job."""


def _mount(src, tgt, fstype, flags, data):
    r = libc.mount(src, tgt.encode() if isinstance(tgt, str) else tgt,
                   fstype, ctypes.c_ulong(flags), data)
    if r != 0:
        e = ctypes.get_errno()
        raise HarnessError("mount(%r): %s" % (tgt, os.strerror(e)))


def _umount(tgt):
    libc.umount2(tgt.encode() if isinstance(tgt, str) else tgt, MNT_DETACH)


def enter_namespace():
    global _entered
    if _entered:
        return
    try:
        os.unshare(os.CLONE_NEWNS)
        _mount(None, "/", None, MS_REC | MS_PRIVATE, None)
        os.makedirs(BASE, exist_ok=True)
        _mount(b"tmpfs", BASE, b"tmpfs", 0, b"size=512m,mode=755")
        os.mkdir(W)
    except (OSError, AttributeError) as e:
        raise HarnessError("cannot create private mount namespace: %s" % e)
    _entered = True


def fsenc(s):
    return s.encode("utf-8", "surrogateescape")


def fsdec(b):
    return b.decode("utf-8", "surrogateescape")


def wp(p):
    """world-absolute path -> host path"""
    assert p.startswith("/"), p
    return W if p == "/" else W + p


_world_mounted = False


def destroy_world():
    global _world_mounted
    if _world_mounted:
        _umount(W)
        _world_mounted = False


T0 = 1400000000  # default mtimes (seconds); node i gets T0 + i


def build_world(spec):
    """Create the world described by spec at W (fresh tmpfs)."""
    global _world_mounted
    enter_namespace()
    destroy_world()
    _mount(b"tmpfs", W, b"tmpfs", 0, b"size=256m,mode=755")
    _world_mounted = True
    made = []  # (hostpath, mtime) in creation order

    def mkdirs(p):
        if not os.path.lexists(p):
            mkdirs(os.path.dirname(p))
            os.mkdir(p, 0o755)
            made.append((p, T0 - 1000))

    vols = sorted(spec.get("vols", []), key=lambda v: v.count("/"))
    vsize = spec.get("vol_size", {})
    for v in vols:
        hp = wp(v)
        mkdirs(hp)
        _mount(b"tmpfs", hp, b"tmpfs", 0, ("size=%s,mode=755" % vsize.get(v, "256m")).encode())
        made.append((hp, T0 - 500))
    chmods = []
    for i, n in enumerate(spec.get("nodes", [])):
        hp = wp(n["p"])
        t = n["t"]
        if len(os.fsencode(hp)) > 3500:
            _build_long(hp, n, n.get("mt", T0 + i))
            continue
        parent = os.path.dirname(hp)
        if not os.path.isdir(parent):
            mkdirs(parent)
        if t != "d" and os.path.lexists(hp):
            continue  # first definition of a path wins
        if t == "d":
            if not os.path.isdir(hp):
                os.mkdir(hp, 0o755)
            chmods.append((hp, n.get("m", 0o755)))
        elif t == "f":
            try:
                data = n.get("c", "").encode("latin-1") * n.get("rep", 1)
            except UnicodeEncodeError:
                data = n.get("c", "").encode("utf-8", "surrogateescape") * n.get("rep", 1)
            fd = os.open(hp, os.O_WRONLY | os.O_CREAT | os.O_EXCL, 0o644)
            try:
                os.write(fd, data)
            finally:
                os.close(fd)
            chmods.append((hp, n.get("m", 0o644)))
        elif t == "b":  # raw bytes given as list of ints (info files etc.)
            fd = os.open(hp, os.O_WRONLY | os.O_CREAT | os.O_EXCL, 0o644)
            try:
                os.write(fd, bytes(n["b"]))
            finally:
                os.close(fd)
            chmods.append((hp, n.get("m", 0o644)))
        elif t == "l":
            os.symlink(n["to"], hp)
        elif t == "p":     # a fifo (a special file: nothing to copy, cannot be opened casually)
            os.mkfifo(hp, 0o644)
            chmods.append((hp, n.get("m", 0o644)))
        else:
            raise HarnessError("bad node type %r" % (t,))
        made.append((hp, n.get("mt", T0 + i)))
    for v in spec.get("fill", ()):
        # a FULL volume: no free block is left (new names can still be created, as on a real
        # file system with free inodes, but every write answers ENOSPC)
        hp = wp(v.rstrip("/") + "/.ballast")
        fd = os.open(hp, os.O_WRONLY | os.O_CREAT | os.O_EXCL, 0o600)
        try:
            chunk = b"\0" * 4096
            while True:
                os.write(fd, chunk)
        except OSError:
            pass
        finally:
            os.close(fd)
        made.append((hp, T0 - 400))
    for hp, m in chmods:
        os.chmod(hp, m)
    for hp, mt in sorted(made, key=lambda x: -x[0].count("/")):
        os.utime(hp, (mt, mt), follow_symlinks=False)
    os.utime(W, (T0 - 2000, T0 - 2000))


def _build_long(hp, n, mt):
    """create a node whose absolute path exceeds PATH_MAX: walk down with directory fds"""
    comps = [c for c in hp[len(W):].split("/") if c]
    dfd = os.open(W, os.O_RDONLY | os.O_DIRECTORY)
    try:
        for c in comps[:-1]:
            try:
                os.mkdir(c, 0o755, dir_fd=dfd)
                os.utime(c, (T0 - 1000, T0 - 1000), dir_fd=dfd)
            except FileExistsError:
                pass
            nfd = os.open(c, os.O_RDONLY | os.O_DIRECTORY | os.O_NOFOLLOW, dir_fd=dfd)
            os.close(dfd)
            dfd = nfd
        name, t = comps[-1], n["t"]
        try:
            os.lstat(name, dir_fd=dfd)
            exists = True
        except FileNotFoundError:
            exists = False
        if exists and t != "d":
            return
        if t == "d":
            if not exists:
                os.mkdir(name, 0o755, dir_fd=dfd)
            os.chmod(name, n.get("m", 0o755), dir_fd=dfd)
        elif t in ("f", "b"):
            if t == "b":
                data = bytes(n["b"])
            else:
                try:
                    data = n.get("c", "").encode("latin-1") * n.get("rep", 1)
                except UnicodeEncodeError:
                    data = n.get("c", "").encode("utf-8", "surrogateescape") * n.get("rep", 1)
            fd = os.open(name, os.O_WRONLY | os.O_CREAT | os.O_EXCL, 0o644, dir_fd=dfd)
            try:
                os.write(fd, data)
            finally:
                os.close(fd)
            os.chmod(name, n.get("m", 0o644), dir_fd=dfd)
        elif t == "l":
            os.symlink(n["to"], name, dir_fd=dfd)
        elif t == "p":
            os.mkfifo(name, 0o644, dir_fd=dfd)
            os.chmod(name, n.get("m", 0o644), dir_fd=dfd)
        else:
            raise HarnessError("bad node type %r" % (t,))
        os.utime(name, (mt, mt), dir_fd=dfd, follow_symlinks=False)
    finally:
        os.close(dfd)


Node = namedtuple("Node", "t mode size sha target mtime dev ino nlink")


def _node(dfd, name):
    """lstat-level description of the entry `name` of the directory open at dfd"""
    st = os.lstat(name, dir_fd=dfd)
    m = st.st_mode
    if stat.S_ISLNK(m):
        return Node("l", stat.S_IMODE(m), 0, None, fsdec(os.fsencode(os.readlink(name, dir_fd=dfd))),
                    st.st_mtime_ns, st.st_dev, st.st_ino, st.st_nlink)
    if stat.S_ISDIR(m):
        return Node("d", stat.S_IMODE(m), 0, None, None, st.st_mtime_ns,
                    st.st_dev, st.st_ino, st.st_nlink)
    if stat.S_ISREG(m):
        h = hashlib.sha256()
        fd = os.open(name, os.O_RDONLY | os.O_NOFOLLOW, dir_fd=dfd)
        try:
            while True:
                b = os.read(fd, 1 << 20)
                if not b:
                    break
                h.update(b)
        finally:
            os.close(fd)
        return Node("f", stat.S_IMODE(m), st.st_size, h.hexdigest()[:16], None,
                    st.st_mtime_ns, st.st_dev, st.st_ino, st.st_nlink)
    return Node("p" if stat.S_ISFIFO(m) else "s" if stat.S_ISSOCK(m) else "o", stat.S_IMODE(m), 0,
                None, None, st.st_mtime_ns, st.st_dev, st.st_ino, st.st_nlink)


def snapshot(top="/"):
    """{world-absolute path: Node} for everything at or below top (lstat only).

    The walk is relative to directory file descriptors, so locations deeper than PATH_MAX
    are seen like any other."""
    out = {}
    htop = os.fsencode(wp(top))

    def rec(dfd, name, key, depth=0):
        try:
            n = _node(dfd, name)
        except OSError as e:
            out[key] = Node("?", 0, 0, "errno%d" % e.errno, None, 0, 0, 0, 0)
            return
        out[key] = n
        if n.t == "d":
            if depth > 60:
                out[key + "/..."] = Node("?", 0, 0, "too deep", None, 0, 0, 0, 0)
                return
            try:
                fd = os.open(name, os.O_RDONLY | os.O_DIRECTORY | os.O_NOFOLLOW, dir_fd=dfd)
            except OSError:
                return
            try:
                try:
                    names = sorted(os.listdir(fd))
                except OSError:
                    return
                pre = "" if key == "/" else key
                for nm in names:
                    rec(fd, os.fsencode(nm), pre + "/" + fsdec(os.fsencode(nm)), depth + 1)
            finally:
                os.close(fd)

    if os.path.lexists(htop):
        pfd = os.open(os.path.dirname(htop) or b"/", os.O_RDONLY | os.O_DIRECTORY)
        try:
            rec(pfd, os.path.basename(htop), top if top == "/" else top.rstrip("/"))
        finally:
            os.close(pfd)
    return out


def sig(n, mtime=True):
    """comparable projection of a Node: what 'unchanged' means"""
    if n.t == "l":
        return ("l", n.target)
    if n.t == "d":
        return ("d", n.mode, n.mtime if mtime else None)
    return (n.t, n.mode, n.size, n.sha, n.mtime if mtime else None)


def subtree(snap, top, mtime=True, dir_mtime=True):
    """{relative path: sig} of the subtree rooted at top ('' is top itself)"""
    out = {}
    pre = top.rstrip("/") + "/"
    for p, n in snap.items():
        if p == top:
            out[""] = sig(n, mtime and (dir_mtime or n.t != "d"))
        elif p.startswith(pre):
            out[p[len(pre):]] = sig(n, mtime and (dir_mtime or n.t != "d"))
    return out


def read_bytes(p):
    with open(wp(p), "rb") as f:
        return f.read()
