"""Helper for tools/strace_audit.py: builds the world of a C05-style case and runs trash-put once
(fault free, interposer armed), printing the interposer's mutating trace as JSON on stdout."""
import json
import sys


def main():
    from . import sandbox, shim, runner
    shim.install(sys.argv[2] if len(sys.argv) > 2 else "/repo")
    from .props import c05, c15
    case = json.load(open(sys.argv[1]))
    if case.get("_prop") == "C15":
        tw, es = c15.build(case)
        spec = tw.spec(cwd="/", now="2021-06-15T00:00:00")
        script, args, stdin, env, sel = c15.command(case, es)
        sandbox.build_world(spec)
        r = runner.run(spec, script, args, stdin=stdin, env=env)
    else:
        spec, opts, files, tdir = c05.build(case)
        sandbox.build_world(spec)
        r = runner.run(spec, "trash-put", opts + ["--"] + files)
    sys.stdout.write(json.dumps({"code": r.code, "trace": [t for t in r.trace if t[1]]}))
    sys.stdout.flush()
    sandbox.destroy_world()


if __name__ == "__main__":
    main()
