"""Independent reference implementations used as oracles.

None of this imports trash-cli.  Everything works on snapshots
({world-absolute path: Node}) or plain values.
"""
import re

from .sandbox import fsdec, fsenc

# ---------------------------------------------------------------- paths

def norm_join(base, rel):
    return (base.rstrip("/") + "/" + rel) if rel else (base or "/")


def split(p):
    return [c for c in p.split("/") if c]


def resolve(snap, path, cwd="/", follow_last=True, _depth=0):
    """Kernel-style path resolution against a snapshot.

    Returns the canonical world-absolute path (symlinks resolved, '.'/'..'
    handled component by component like the kernel does), or None when a
    component does not exist / is not a directory / loops.  With
    follow_last=False a final symlink is not followed.  A final component that
    does not exist is allowed (returned path then simply does not exist).
    """
    if _depth > 40:
        return None
    if not path.startswith("/"):
        path = cwd.rstrip("/") + "/" + path
    trailing = path.endswith("/") and path.strip("/") != ""
    comps = split(path)
    cur = "/"
    i = 0
    while i < len(comps):
        c = comps[i]
        last = i == len(comps) - 1
        i += 1
        if c == ".":
            continue
        n = snap.get(cur)
        if n is None or n.t != "d":
            return None
        if c == "..":
            cur = cur.rsplit("/", 1)[0] or "/"
            continue
        nxt = cur.rstrip("/") + "/" + c
        n = snap.get(nxt)
        if n is None:
            return nxt if last and not trailing else None
        if n.t == "l" and (not last or follow_last or trailing):
            tgt = n.target
            rest = "/".join(comps[i:])
            newp = tgt if tgt.startswith("/") else cur.rstrip("/") + "/" + tgt
            if rest:
                newp = newp.rstrip("/") + "/" + rest + ("/" if trailing else "")
            elif trailing:
                newp = newp.rstrip("/") + "/"
            return resolve(snap, newp, "/", follow_last, _depth + 1)
        cur = nxt
    if trailing:
        n = snap.get(cur)
        if n is None or n.t != "d":
            return None
    return cur


def volume_of(vols, path):
    """mount point (world-absolute) holding canonical path `path`; vols excludes '/'"""
    best = "/"
    for v in vols:
        if (path == v or path.startswith(v.rstrip("/") + "/")) and len(v) > len(best):
            best = v
    return best


# ---------------------------------------------------------------- .trashinfo codec (bytes level)

UNRESERVED = set(b"ABCDEFGHIJKLMNOPQRSTUVWXYZabcdefghijklmnopqrstuvwxyz0123456789-_.!~*'()")
_HEX = b"0123456789abcdefABCDEF"


def pct_decode(b):
    """RFC 2396 un-escaping on bytes; a '%' not followed by two hex digits stays literal"""
    out = bytearray()
    i = 0
    n = len(b)
    while i < n:
        c = b[i]
        if c == 0x25 and i + 3 <= n and b[i + 1] in _HEX and b[i + 2] in _HEX:
            out.append(int(b[i + 1:i + 3], 16))
            i += 3
        else:
            out.append(c)
            i += 1
    return bytes(out)


def pct_encode(b, safe=b"/"):
    out = bytearray()
    for c in b:
        if c in UNRESERVED or c in safe:
            out.append(c)
        else:
            out += b"%%%02X" % c
    return bytes(out)


def path_value_is_conformant(v):
    """Path value consists only of unreserved bytes, '/', and %XX escapes"""
    i = 0
    n = len(v)
    while i < n:
        c = v[i]
        if c == 0x25:
            if i + 3 <= n and v[i + 1] in _HEX and v[i + 2] in _HEX:
                i += 3
                continue
            return False
        if c in UNRESERVED or c == 0x2F:
            i += 1
            continue
        return False
    return True


_DATE_RE = re.compile(rb"^\d{4}-\d\d-\d\dT\d\d:\d\d:\d\d$")


def parse_info(data):
    """(path_bytes or None, date_bytes or None, header_ok) -- first Path= / DeletionDate= line"""
    lines = data.split(b"\n")
    path = date = None
    for ln in lines:
        if path is None and ln.startswith(b"Path="):
            path = ln[5:]
        if date is None and ln.startswith(b"DeletionDate="):
            date = ln[13:]
    return path, date, (lines[0] == b"[Trash Info]" if lines else False)


def info_path_decoded(data):
    p, _, _ = parse_info(data)
    return None if p is None else pct_decode(p)


def date_ok(d):
    return d is not None and bool(_DATE_RE.match(d))


def make_info(path_bytes, date, extra=b""):
    return b"[Trash Info]\nPath=" + pct_encode(path_bytes) + b"\nDeletionDate=" + \
        date.encode() + b"\n" + extra


# ---------------------------------------------------------------- trash scanning (own reader)

def trash_dirs_in(snap):
    """all directories D that look like trash dirs: have D/info or D/files"""
    out = set()
    for p, n in snap.items():
        if n.t == "d" and (p.endswith("/info") or p.endswith("/files")):
            out.add(p.rsplit("/", 1)[0] or "/")
    return sorted(out)


def scan_trash(snap, tdir, read):
    """Own reader of one trash dir.

    returns dict name -> {"info": path|None, "payload": path|None, "raw": bytes|None,
                          "path": bytes|None, "date": bytes|None}
    name = info file name without '.trashinfo' / payload name.
    """
    out = {}
    ipre = tdir.rstrip("/") + "/info/"
    fpre = tdir.rstrip("/") + "/files/"
    for p, n in snap.items():
        if p.startswith(ipre) and "/" not in p[len(ipre):]:
            nm = p[len(ipre):]
            if nm.endswith(".trashinfo"):
                key = nm[:-len(".trashinfo")]
                e = out.setdefault(key, dict(info=None, payload=None, raw=None, path=None,
                                             date=None, itype=None))
                e["info"] = p
                e["itype"] = n.t
                if n.t == "f":
                    try:
                        raw = read(p)
                    except OSError:
                        # (the snapshot is older than the disk: the file is gone by now)
                        continue
                    e["raw"] = raw
                    pb, db, _ = parse_info(raw)
                    e["path"] = None if pb is None else pct_decode(pb)
                    e["date"] = db
        elif p.startswith(fpre) and "/" not in p[len(fpre):]:
            nm = p[len(fpre):]
            e = out.setdefault(nm, dict(info=None, payload=None, raw=None, path=None,
                                        date=None, itype=None))
            e["payload"] = p
    return out


# ---------------------------------------------------------------- shell-style matcher (C12)

def glob_match(pat, s):
    """Case-sensitive shell-style match: * ? [set] [!set] ranges; '*' crosses '/'.

    Own backtracking implementation (no fnmatch / re)."""
    return _gm(pat, 0, s, 0)


def _parse_set(pat, i):
    """pat[i] == '['.  returns (negate, items, next_index) or None if unterminated"""
    j = i + 1
    neg = False
    if j < len(pat) and pat[j] == "!":
        neg = True
        j += 1
    start = j
    if j < len(pat) and pat[j] == "]":
        j += 1
    while j < len(pat) and pat[j] != "]":
        j += 1
    if j >= len(pat):
        return None
    body = pat[start:j]
    items = []
    k = 0
    while k < len(body):
        if k + 2 < len(body) and body[k + 1] == "-":
            items.append((body[k], body[k + 2]))
            k += 3
        else:
            items.append((body[k], body[k]))
            k += 1
    return neg, items, j + 1


def _gm(pat, i, s, j):
    while i < len(pat):
        c = pat[i]
        if c == "*":
            while i < len(pat) and pat[i] == "*":
                i += 1
            if i == len(pat):
                return True
            for k in range(j, len(s) + 1):
                if _gm(pat, i, s, k):
                    return True
            return False
        if j >= len(s):
            return False
        if c == "?":
            i += 1
            j += 1
            continue
        if c == "[":
            ps = _parse_set(pat, i)
            if ps is None:
                if s[j] != "[":
                    return False
                i += 1
                j += 1
                continue
            neg, items, ni = ps
            hit = any(lo <= s[j] <= hi for lo, hi in items)
            if hit == neg:
                return False
            i = ni
            j += 1
            continue
        if c != s[j]:
            return False
        i += 1
        j += 1
    return j == len(s)
