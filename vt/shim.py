"""Process-wide patches, applied BEFORE trashcli is imported.

  * datetime.datetime -> subclass with a settable virtual now()
  * psutil.disk_partitions -> the world's mount table (set per command)
  * os.getuid -> the world's uid (set per command)
  * opsim wrappers on os / builtins (inactive until armed in a child)
Nothing inside /repo is touched; the checks judge any working tree as it is.
"""
import datetime as _dt
import importlib
import os
import pkgutil
import sys
from collections import namedtuple

from . import opsim

_real_datetime = _dt.datetime
_installed = False


class _Meta(type(_real_datetime)):
    def __instancecheck__(cls, inst):
        return isinstance(inst, _real_datetime)

    def __subclasscheck__(cls, sub):
        return issubclass(sub, _real_datetime)


class VDatetime(_real_datetime, metaclass=_Meta):
    _vt_now = None          # virtual LOCAL time (naive)
    _vt_utc_offset = 0      # seconds east of UTC of the world's time zone
    _vt_step = 0            # seconds the virtual clock advances after every reading (time passes)

    @classmethod
    def now(cls, tz=None):
        if cls._vt_now is None:
            return _real_datetime.now(tz)
        n = cls._vt_now
        if cls._vt_step:
            cls._vt_now = n + _dt.timedelta(seconds=cls._vt_step)
        if tz is not None:
            u = n - _dt.timedelta(seconds=cls._vt_utc_offset)
            return _real_datetime(u.year, u.month, u.day, u.hour, u.minute, u.second,
                                  u.microsecond, tzinfo=_dt.timezone.utc).astimezone(tz)
        return cls(n.year, n.month, n.day, n.hour, n.minute, n.second, n.microsecond)

    @classmethod
    def today(cls):
        return cls.now()

    @classmethod
    def utcnow(cls):
        if cls._vt_now is None:
            return _real_datetime.utcnow()
        n = cls._vt_now - _dt.timedelta(seconds=cls._vt_utc_offset)
        return cls(n.year, n.month, n.day, n.hour, n.minute, n.second, n.microsecond)


VDatetime.__name__ = "datetime"
VDatetime.__qualname__ = "datetime"

sdiskpart = namedtuple("sdiskpart", "device mountpoint fstype opts")
_partitions = []
_uid = [None]
_real_getuid = os.getuid


_PHYSICAL = ("ext2", "ext3", "ext4", "xfs", "vfat", "exfat", "ntfs", "btrfs", "f2fs")


def _disk_partitions(all=False):
    # like psutil: all=False lists the physical devices only
    return [p for p in _partitions if all or p.fstype in _PHYSICAL]


def _getuid():
    return _real_getuid() if _uid[0] is None else _uid[0]


def set_world(vols, uid, now, utc_offset=0, fstypes=None, clock_step=0):
    """called in the child: vols are world-absolute mount points ('/' included)"""
    fstypes = fstypes or {}
    _partitions[:] = [sdiskpart("/dev/vt%d" % i, v, fstypes.get(v, "ext4"), "rw") for i, v in enumerate(vols)]
    _uid[0] = uid
    VDatetime._vt_now = now
    VDatetime._vt_utc_offset = utc_offset
    VDatetime._vt_step = clock_step


def set_epoch(now):
    """called in the child after tzset(): the virtual instant as seconds since the epoch, so that
    time.time() and datetime.now() describe the SAME moment (in the world's time zone, daylight
    saving included).  Returns (epoch seconds, utc offset in force at that instant)."""
    import time as _time
    try:
        e = _time.mktime((now.year, now.month, now.day, now.hour, now.minute, now.second, 0, 0, -1))
        off = _time.localtime(e).tm_gmtoff
    except (OverflowError, ValueError, OSError):
        return None, 0
    e += now.microsecond / 1e6
    _time.time = lambda: e
    return e, off


SCRIPTS = ("trash-put", "trash-list", "trash-restore", "trash-empty", "trash-rm", "trash")
code = {}
repo_dir = None

_PRELOAD = """errno stat shutil tempfile fnmatch glob re json logging subprocess pathlib
collections itertools functools textwrap locale codecs encodings.utf_8 encodings.latin_1
encodings.ascii encodings.idna urllib.parse time random pwd grp argparse gettext string
traceback linecache warnings contextlib abc enum typing types copy io posixpath genericpath
struct hashlib base64 binascii signal select fcntl getpass platform operator heapq bisect
weakref threading queue socket unicodedata pprint difflib shlex uuid zlib calendar _strptime
""".split()


def install(repo):
    """Patch, then import every trashcli module from <repo>."""
    global _installed, repo_dir
    if _installed:
        return
    repo = os.path.realpath(repo)
    repo_dir = repo
    _dt.datetime = VDatetime
    import psutil
    psutil.disk_partitions = _disk_partitions
    os.getuid = _getuid
    opsim._install()
    for m in _PRELOAD:
        try:
            importlib.import_module(m)
        except Exception:
            pass
    for k in [k for k in sys.modules if k == "trashcli" or k.startswith("trashcli.")]:
        del sys.modules[k]
    sys.path.insert(0, repo)
    import trashcli
    got = os.path.realpath(os.path.dirname(trashcli.__file__))
    if got != os.path.join(repo, "trashcli"):
        raise RuntimeError("trashcli imported from %s, expected %s" % (got, repo))
    for mi in pkgutil.walk_packages(trashcli.__path__, "trashcli."):
        try:
            importlib.import_module(mi.name)
        except Exception:
            pass  # a broken optional module shows up when a command needs it
    for s in SCRIPTS:
        path = os.path.join(repo, s)
        with open(path) as f:
            code[s] = compile(f.read(), path, "exec")
    try:  # warm lazily imported helpers
        import six.moves.urllib.parse  # noqa
        from six.moves import input as _i  # noqa
        _real_datetime.strptime("2000-01-01", "%Y-%m-%d")
        "x".encode("idna")
    except Exception:
        pass
    _installed = True
