"""Second search strategy for the properties that have a pure function at their core:
coverage-guided fuzzing (atheris on libFuzzer) of the function-level oracles in fnchecks.py.

The Hypothesis campaign of the property stays the deciding step for the commands; this stage
adds feedback-directed search over the parsers / matchers / codecs the commands call.  It is
skipped (with a note in the evidence) when atheris is not importable."""
import json
import os
import subprocess
import sys
import tempfile

VERIF = os.path.dirname(os.path.dirname(os.path.abspath(__file__)))
TARGETS = {"C03": "c03", "C12": "c12", "C13": "c13", "C20": "c20"}
RUNS = {"quick": 30000, "thorough": 1500000}


def available():
    try:
        sys.path.insert(0, os.path.join(VERIF, ".deps"))
        import atheris  # noqa: F401
        return True
    except Exception:
        return False


def run(prop_id, tier, seed, repo, scale=1.0):
    """-> dict(execs, labels, note, failure) ; failure = None | replayable case dict"""
    name = TARGETS.get(prop_id)
    if name is None:
        return None
    if not available():
        return {"execs": 0, "labels": {}, "note": "fuzz stage skipped: atheris not importable", "failure": None}
    runs = max(2000, int(RUNS[tier] * scale))
    tmp = tempfile.mkdtemp(prefix="vtfuzz-")
    stats, crash, corpus = tmp + "/stats.json", tmp + "/crash.json", tmp + "/corpus"
    os.mkdir(corpus)
    # a few small valid inputs next to the empty corpus (both starting points are tried: the
    # first half of the runs starts from nothing, the second half from the seeds + what was found)
    env = dict(os.environ, PYTHONPATH=VERIF + os.pathsep + os.path.join(VERIF, ".deps"),
               PYTHONHASHSEED="0")
    out = {"execs": 0, "labels": {}, "note": "", "failure": None}
    try:
        for phase in (0, 1):
            if phase == 1:
                for i, blob in enumerate(SEEDS):
                    with open(os.path.join(corpus, "seed%d" % i), "wb") as f:
                        f.write(blob)
            cmd = [sys.executable, "-m", "vt.fuzz_target", name, repo, stats, crash, corpus,
                   "-runs=%d" % (runs // 2), "-seed=%d" % (seed * 2 + phase + 1), "-max_len=64",
                   "-artifact_prefix=" + tmp + "/", "-print_final_stats=0", "-verbosity=0",
                   "-timeout=30", "-rss_limit_mb=2048"]
            p = subprocess.run(cmd, cwd=VERIF, env=env, stdout=subprocess.PIPE,
                               stderr=subprocess.STDOUT, timeout=3000)
            st = {}
            if os.path.exists(stats):
                with open(stats) as f:
                    st = json.load(f)
            out["execs"] += st.get("execs", 0)
            for k, v in st.get("labels", {}).items():
                out["labels"][k] = out["labels"].get(k, 0) + v
            if st.get("unavailable"):
                out["note"] = "fuzz stage skipped: the functions of target %s are not importable " \
                              "from this tree" % name
                break
            if os.path.exists(crash):
                with open(crash) as f:
                    out["failure"] = json.load(f)
                break
            if p.returncode != 0:
                tail = p.stdout.decode("utf-8", "replace")[-600:]
                raise RuntimeError("fuzz target %s ended with status %d without a saved failure:\n%s" % (
                    name, p.returncode, tail))
    finally:
        import shutil
        shutil.rmtree(tmp, ignore_errors=True)
    return out


SEEDS = [b"\x01\x03abc", b"\x02\x05\x06\x07\x01\x00\x01\x02\x03", b"\x05\x01\x02\x10\x03\x04\x0b\x01",
         b"\x03\x00\x01\x04\x02\x01\x00\x00\x05\x01\x00\x00\x00\x00\x00"]


def replay(case, repo):
    """re-run a saved fuzz input in this process -> (clause, msg) | None"""
    sys.path.insert(0, repo)
    from . import fnchecks
    _label, failure = fnchecks.check(case["fuzz_target"], bytes.fromhex(case["input_hex"]))
    return failure
