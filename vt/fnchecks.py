"""Function-level oracles, shared by the coverage-guided fuzz targets (fuzz_target.py) and
by the replay of an input they saved.

Every check maps raw bytes to structured arguments (so that the fuzzer reaches the logic
instead of dying in input validation), calls the functions of the working tree the commands
themselves call, and judges the result with an oracle that does not use trash-cli:

  c03  format_trashinfo / parse_path / parse_deletion_date   round trip + RFC 2396 conformance
  c12  rm.filter.Filter.matches                              vs own backtracking glob matcher
  c13  restore parse_indexes                                 vs the reply grammar of C13
  c20  the parsers the four readers use on one info text     agree with each other and with
                                                             the first-key-wins reading

check(name, data) -> (label, failure) ; label classifies the input ("" = trivial), failure is
None or (clause, message).  ImportError of a trash-cli function is reported as unavailable
(label 'unavailable'), never as a violation.
"""
import datetime
import re

from . import oracle

# ------------------------------------------------------------------ byte -> structure helpers


class Bytes(object):
    """minimal data provider (deterministic, total: never raises on short input)"""

    def __init__(self, data):
        self.d = data
        self.i = 0

    def byte(self):
        if self.i >= len(self.d):
            return 0
        b = self.d[self.i]
        self.i += 1
        return b

    def left(self):
        return len(self.d) - self.i

    def pick(self, seq):
        return seq[self.byte() % len(seq)]

    def uint(self, nbytes):
        v = 0
        for _ in range(nbytes):
            v = v * 256 + self.byte()
        return v


ALPHA = list("abAB01._- %+=~#") + ["\u00e9", "\u4e2d", "\U0001f600", "\n", "\t", "\r", "%41", "%2F",
                                   "%", "%%", "..", "\\", "*", "?", "[", "]", "!", "\u0301", "\x7f", "\x01"]


def text(bs, maxlen=24):
    n = bs.byte() % (maxlen + 1)
    return "".join(bs.pick(ALPHA) for _ in range(min(n, bs.left() + 1)))


# ------------------------------------------------------------------ C03

def c03(data):
    try:
        from trashcli.put.format_trash_info import format_trashinfo
        from trashcli.parse_trashinfo.parse_path import parse_path
        from trashcli.parse_trashinfo.parse_deletion_date import parse_deletion_date
    except ImportError:
        return "unavailable", None
    bs = Bytes(data)
    ncomp = 1 + bs.byte() % 4
    comps = []
    for _ in range(ncomp):
        c = text(bs).replace("/", "_").replace("\0", "_")
        comps.append(c or "x")
    loc = "/" + "/".join(comps)
    # (years below 1000 are outside the domain: strftime('%Y') does not zero-pad them)
    secs = bs.uint(5) % (8029 * 365 * 86400)
    when = datetime.datetime(1970, 1, 1) + datetime.timedelta(seconds=secs)
    try:
        blob = format_trashinfo(loc, when)
        t = blob.decode("utf-8") if isinstance(blob, bytes) else blob
        back = parse_path(t)
        d = parse_deletion_date(t)
    except Exception as ex:
        return "c03", ("fn_exception", "codec raised %r on %r" % (ex, loc))
    label = "c03:" + "+".join(sorted(set(
        ("pct" if "%" in c else "ctl" if any(ord(x) < 32 for x in c) else
         "wide" if any(ord(x) > 127 for x in c) else "plain") for c in comps))) + ":%d" % ncomp
    if back != loc:
        return label, ("fn_roundtrip", "parse_path(format(%r)) == %r" % (loc, back))
    if d is None or d.replace(microsecond=0) != when.replace(microsecond=0):
        return label, ("fn_date", "date %r read back as %r" % (when, d))
    lines = t.split("\n")
    if len(lines) < 3 or not oracle.path_value_is_conformant(lines[1][5:].encode("utf-8")):
        return label, ("fn_not_escaped", "Path line %r" % (lines[1:2],))
    return (label if label != "c03:plain:1" else ""), None


# ------------------------------------------------------------------ C12

def _pattern(bs):
    """pattern from the grammar of C12 (well-defined shell meaning only) -> (text, has_meta)"""
    out, meta = [], False
    lits = list("abAB1._- ") + ["\u00e9", "\n", "%", "+", "=", "\u4e2d", "[*]", "[?]", "[[]"]
    for _ in range(1 + bs.byte() % 6):
        k = bs.byte() % 10
        if k <= 4:
            out.append(bs.pick(lits))
        elif k == 5:
            out.append("*")
            meta = True
        elif k == 6:
            out.append("?")
            meta = True
        elif k in (7, 8):
            chars = []
            for _ in range(1 + bs.byte() % 3):
                c = bs.pick(list("abcABC123xyz\u00e9\u00e8\u4e2d"))
                if c not in chars:
                    chars.append(c)
            out.append("[" + ("!" if k == 8 else "") + "".join(chars) + "]")
            meta = True
        else:
            lo, hi = sorted((bs.pick(list("abcdef")), bs.pick(list("abcdef"))))
            if lo == hi:
                hi = "f" if lo != "f" else "f"
            out.append("[" + ("!" if bs.byte() % 2 else "") + lo + "-" + hi + "]")
            meta = True
    return "".join(out), meta


def c12(data):
    try:
        from trashcli.rm.filter import Filter
    except ImportError:
        return "unavailable", None
    bs = Bytes(data)
    pat, meta = _pattern(bs)
    full = bs.byte() % 4 == 0
    dirs = ["/home/u/w", "/vol/d", "/a b/c", "/"]
    d = bs.pick(dirs)
    if full:
        pat = bs.pick([d.rstrip("/") + "/", "/*/", "/*", "/"]) + pat
    sub_alpha = list("abAB1._- xqQ7#") + ["\u00e9", "\u00e8", "\u4e2d", "\u65e5", "\n", "%", "+", "=",
                                         "*", "?", "[", "]", "\U0001f600"]
    name = "".join(bs.pick(sub_alpha) for _ in range(bs.byte() % 9)) or "n"
    if name in (".", ".."):
        name = "n" + name
    orig = d.rstrip("/") + "/" + name
    subject = orig if pat.startswith("/") else name
    want = oracle.glob_match(pat, subject)
    try:
        got = bool(Filter(pat).matches(orig))
    except Exception as ex:
        return "c12", ("fn_exception", "Filter(%r).matches(%r) raised %r" % (pat, orig, ex))
    label = "c12:%s:%s:%s" % ("full" if pat.startswith("/") else "base",
                              re.sub(r"[^*?\[]", "", pat)[:4], "hit" if want else "miss") if meta else ""
    if got != want:
        return label or "c12", ("fn_match", "Filter(%r).matches(%r) == %r, own matcher says %r" % (
            pat, orig, got, want))
    return label, None


# ------------------------------------------------------------------ C13

def c13(data):
    try:
        from trashcli.restore.restore_asking_the_user import InvalidEntry, parse_indexes
    except ImportError:
        return "unavailable", None
    from .props import c13 as P
    bs = Bytes(data)
    n = 1 + bs.byte() % 40
    toks = list("0123456789") + ["-", ",", " ", "10", "12", "39", "-", ",", "+", "x", "\t", "--", "0x1",
                                 "1e1", "\u0663", "_", ".", "999999999999"]
    reply = "".join(bs.pick(toks) for _ in range(bs.byte() % 12))
    idx = P.plain_indices(reply)
    try:
        got = list(parse_indexes(reply, n).all_indexes())
        err = None
    except InvalidEntry as e:
        got, err = None, e
    except (ValueError, OverflowError, MemoryError) as e:
        got, err = None, e
    shape = re.sub(r"\d+", "N", reply)[:6]
    label = "c13:" + shape if ("," in reply or "-" in reply) else ""
    if isinstance(idx, list):
        valid = all(i < n for i in idx)
        if valid and got != idx:
            return label or "c13", ("fn_parse", "parse_indexes(%r, %d) -> %r (%r), grammar says %r" % (
                reply, n, got, err, idx))
        if not valid and got is not None:
            return label or "c13", ("fn_range", "parse_indexes(%r, %d) accepted out-of-range "
                                    "indices: %r" % (reply, n, got))
    elif got is not None and P.has_negative_bound(reply):
        return label or "c13", ("fn_negative_bound", "parse_indexes(%r, %d) accepted a negative "
                                "bound: %r" % (reply, n, got))
    elif got is not None and any(not (0 <= i < n) for i in got):
        return label or "c13", ("fn_range", "parse_indexes(%r, %d) returned out-of-range %r" % (
            reply, n, got))
    return label, None


# ------------------------------------------------------------------ C20

_DATE = re.compile(r"^\d{4}-\d\d-\d\dT\d\d:\d\d:\d\d$", re.ASCII)
# date-like values the spec's format does not cover (single digits, blanks, non-ASCII digits):
# their reading is not fixed, the readers must only agree with each other
_GREY = re.compile(r"^\s*\d{1,4}-\d{1,2}-\d{1,2}T\d{1,2}:\d{1,2}:\d{1,2}\s*$")


def _info_text(bs):
    lines = []
    kinds = set()
    paths = ["/home/u/a", "w/b", "a%20b", "%41", "/x/%C3%A9", "", "rel/../x", "/tr ail ", "a%2Fb", "%zz",
             "/r%0ADeletionDate%3D2001-01-01T00%3A00%3A00", "/r%0ADeletionDate=2001-01-01T00:00:00",
             "/r%0APath=/other", "a+b", "/c%2B%2B"]
    dates = ["2001-02-03T04:05:06", "2037-01-01T00:00:00", "not-a-date", "2001-02-03", "",
             "2001-02-03T04:05:06Z", "2001-13-40T25:61:61", " 2001-02-03T04:05:06", "2001-02-03T04:05:06 ",
             "0001-01-01T00:00:00", "9999-12-31T23:59:59", "2001-2-3T4:5:6"]
    for _ in range(bs.byte() % 7):
        k = bs.byte() % 10
        if k <= 2:
            lines.append("Path=" + bs.pick(paths))
            kinds.add("P")
        elif k <= 5:
            lines.append("DeletionDate=" + bs.pick(dates))
            kinds.add("D")
        elif k == 6:
            lines.append(bs.pick(["[Trash Info]", "[Other]", "", "# comment", "path=/lower",
                                  "deletiondate=2001-02-03T04:05:06", " Path=/indented",
                                  "Path =/spaced", "X-Path=/x", "DeletionDate", "Path"]))
        elif k == 7:
            lines.append("Path=" + text(bs, 8).replace("\n", "").replace("\r", ""))
            kinds.add("P")
        else:
            lines.append("DeletionDate=" + text(bs, 8).replace("\n", "").replace("\r", ""))
            kinds.add("D")
    head = bs.pick(["[Trash Info]\n", "[Trash Info]\n", "", "\n"])
    return head + "\n".join(lines) + bs.pick(["\n", "", "\n\n"]), kinds, len(lines)


def c20(data):
    try:
        from trashcli.parse_trashinfo.parse_path import parse_path
        from trashcli.parse_trashinfo.parse_deletion_date import parse_deletion_date
        from trashcli.parse_trashinfo.maybe_parse_deletion_date import maybe_parse_deletion_date
        from trashcli.parse_trashinfo.parse_original_location import parse_original_location
        from trashcli.parse_trashinfo.parser_error import ParseError
    except ImportError:
        return "unavailable", None
    bs = Bytes(data)
    t, kinds, nlines = _info_text(bs)
    raw = t.encode("utf-8", "surrogatepass")
    sp, sd, _ = oracle.parse_info(raw)
    # ---- path: list / rm use parse_path, restore parse_original_location
    def call(f, *a):
        try:
            return ("ok", f(*a))
        except ParseError:
            return ("parse_error", None)
        except Exception as ex:
            return ("exc", repr(ex))
    p_list = call(parse_path, t)
    p_rest = call(parse_original_location, t, "/")
    d_rest = call(parse_deletion_date, t)
    d_list = call(maybe_parse_deletion_date, t)
    sds = sd.decode("utf-8", "replace") if sd is not None else None
    label = "c20:%s:%d:%s:%s" % (
        "".join(sorted(kinds)), min(nlines, 5),
        "-" if sp is None else "pct" if b"%" in sp else "rel" if not sp.startswith(b"/") else "abs",
        "-" if sds is None else "strict" if _DATE.match(sds) else "grey" if _GREY.match(sds) else "junk") \
        if nlines >= 2 else ""
    for nm, r in (("parse_path", p_list), ("parse_original_location", p_rest),
                  ("parse_deletion_date", d_rest), ("maybe_parse_deletion_date", d_list)):
        if r[0] == "exc":
            return label or "c20", ("fn_exception", "%s raised %s on %r" % (nm, r[1], t))
    # spec reading of the path: first Path= line, percent-decoded
    if sp is None:
        if p_list[0] == "ok" or p_rest[0] == "ok":
            return label or "c20", ("fn_path", "no Path key in %r but the readers return %r / %r" % (
                t, p_list, p_rest))
    else:
        want = oracle.pct_decode(sp)
        try:
            want_s = want.decode("utf-8")
        except UnicodeDecodeError:
            want_s = None     # not valid UTF-8 after decoding: representation not fixed (finding F6)
        if want_s is not None:
            import posixpath
            if p_list != ("ok", want_s):
                return label or "c20", ("fn_path", "list/rm read Path of %r as %r, first-key reading %r" % (
                    t, p_list, want_s))
            if p_rest != ("ok", posixpath.join("/", want_s)):
                return label or "c20", ("fn_path", "restore reads Path of %r as %r, first-key reading "
                                        "%r" % (t, p_rest, posixpath.join("/", want_s)))
    # dates: the first DeletionDate line decides; valid iff it has the spec's format and is a date
    want_d = None
    grey = False
    if sd is not None:
        s = sd.decode("utf-8", "replace")
        grey = bool(_GREY.match(s)) and not _DATE.match(s)
        if _DATE.match(s):
            try:
                want_d = datetime.datetime.strptime(s, "%Y-%m-%dT%H:%M:%S")
            except ValueError:
                want_d = None
    got_list = d_list[1]
    got_rest = d_rest[1] if d_rest[0] == "ok" else None
    if isinstance(got_list, str):      # list prints a placeholder text for unknown dates
        got_list = None if "?" in got_list else got_list
    if grey:
        if got_list != got_rest:
            return label or "c20", ("fn_date", "readers disagree on the date of %r: list %r, "
                                    "restore/empty %r" % (t, d_list, d_rest))
        return label, None
    if (got_rest is None) != (want_d is None) or (want_d is not None and got_rest != want_d):
        return label or "c20", ("fn_date", "restore/empty read the date of %r as %r, first-key reading "
                                "%r" % (t, d_rest, want_d))
    if (got_list is None) != (want_d is None) or (want_d is not None and got_list != want_d):
        return label or "c20", ("fn_date", "list reads the date of %r as %r, first-key reading %r" % (
            t, d_list, want_d))
    return label, None


CHECKS = {"c03": c03, "c12": c12, "c13": c13, "c20": c20}


def check(name, data):
    return CHECKS[name](bytes(data))
