"""Coverage-guided fuzz target (atheris / libFuzzer) for one function-level oracle.

usage: python -m vt.fuzz_target NAME REPO STATS_JSON CRASH_JSON [libFuzzer options...]

Runs in its own process (libFuzzer ends the process itself).  The semantic oracle lives in
fnchecks.check(): a target that only waited for crashes would check nothing of the property.
The first failing input is written to CRASH_JSON (hex input, clause, message) and the process
exits with libFuzzer's error status; statistics are flushed to STATS_JSON every 500 executions.
"""
import json
import os
import sys


def main():
    name, repo, stats_path, crash_path = sys.argv[1:5]
    sys.path.insert(0, repo)
    import atheris
    with atheris.instrument_imports(include=["trashcli"], enable_loader_override=False):
        import trashcli  # noqa: F401  (submodules are imported, instrumented, on first use)
        from . import fnchecks
        fnchecks.check(name, b"")   # imports the functions under test inside the instrumented scope
    stats = {"execs": 0, "labels": {}, "unavailable": False}

    def flush():
        with open(stats_path + ".tmp", "w") as f:
            json.dump(stats, f)
        os.replace(stats_path + ".tmp", stats_path)

    def one(data):
        label, failure = fnchecks.check(name, data)
        stats["execs"] += 1
        if label == "unavailable":
            stats["unavailable"] = True
            flush()
            os._exit(0)
        if label:
            stats["labels"][label] = stats["labels"].get(label, 0) + 1
        if failure is not None:
            with open(crash_path, "w") as f:
                json.dump({"fuzz_target": name, "input_hex": bytes(data).hex(),
                           "clause": failure[0], "msg": failure[1]}, f)
            flush()
            raise RuntimeError("%s: %s" % failure)
        if stats["execs"] % 500 == 0:
            flush()

    flush()
    atheris.Setup([sys.argv[0]] + sys.argv[5:], one)
    atheris.Fuzz()


if __name__ == "__main__":
    main()
