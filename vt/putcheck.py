"""Judging the effect of a trash-put run from two snapshots (used by C01, C05,
C16, C17, C18).  Purely snapshot based; no trash-cli code involved."""
from . import oracle
from .sandbox import fsenc, sig, subtree


def identity(snap, arg, cwd):
    """Canonical world path of the entry named by a trash-put argument, kernel
    semantics: trailing slashes stripped, parent directory resolved, final
    symlink NOT followed.  ('dot', path) for '.'/'..' spellings (the directory
    itself), None when nothing is named (nonexistent / unresolvable parent)."""
    a = arg.rstrip("/")
    if a == "":
        return ("dot", "/") if arg.startswith("/") else None
    base = a.rsplit("/", 1)[-1]
    if base in (".", ".."):
        r = oracle.resolve(snap, a, cwd)
        return None if r is None or r not in snap else ("dot", r)
    parent = a[:-len(base)] or "."
    if parent != "/":
        parent = parent.rstrip("/") or "/"
    rp = oracle.resolve(snap, parent, cwd)
    if rp is None or rp not in snap or snap[rp].t != "d":
        return None
    e = rp.rstrip("/") + "/" + base
    if e not in snap:
        return None
    return ("entry", e)


def under(p, top):
    return p == top or p.startswith(top.rstrip("/") + "/")


class PutAnalysis(object):
    def __init__(self, before, after, read, vols):
        self.before, self.after, self.read, self.vols = before, after, read, vols
        cand = sorted(set(oracle.trash_dirs_in(before)) | set(oracle.trash_dirs_in(after)),
                      key=lambda t: t.count("/"))
        self.tdirs = []
        for td in cand:  # a trash dir that travelled inside a trashed directory is payload
            if not any(under(td, t.rstrip("/") + "/files") for t in self.tdirs):
                self.tdirs.append(td)
        self.new_infos = {}     # info path -> (tdir, name)
        self.new_payloads = {}  # payload path -> (tdir, name)
        for td in self.tdirs:
            ipre, fpre = td.rstrip("/") + "/info/", td.rstrip("/") + "/files/"
            for p in after:
                if p.startswith(ipre) and "/" not in p[len(ipre):] and p not in before:
                    nm = p[len(ipre):]
                    if nm.endswith(".trashinfo"):
                        nm = nm[:-10]
                    self.new_infos[p] = (td, nm)
                elif p.startswith(fpre) and "/" not in p[len(fpre):] and p not in before:
                    self.new_payloads[p] = (td, p[len(fpre):])
        self.claimed_infos = set()
        self.claimed_payloads = set()

    def expected_path_values(self, e, tdir):
        """acceptable decoded Path values for entry e stored in trash dir tdir"""
        # absolute always acceptable for home-style dirs; relative to the volume top for
        # $topdir dirs.  Which one is *required* is C03/C07 business; C01 accepts both.
        vals = {fsenc(e)}
        top = tdir.rsplit("/", 1)[0] or "/"
        if top.endswith("/.Trash"):
            top = top[:-len("/.Trash")] or "/"
        tv = oracle.volume_of(self.vols, oracle.resolve(self.after, tdir) or tdir)
        for t in {top, tv}:
            if under(e, t) and e != t:
                vals.add(fsenc(e[len(t.rstrip("/")) + 1:]))
        return vals

    @staticmethod
    def _same_but_skeleton(payload, sigma):
        """payload == sigma except for additional *directories* (a trash-dir skeleton that
        trash-put created inside the entry before moving it) and the mtimes of directories"""
        if set(sigma) - set(payload):
            return False
        extra = [k for k in payload if k not in sigma]
        if any(payload[k][0] != "d" for k in extra):
            return False
        for k, v in sigma.items():
            w = payload[k]
            if v[0] == "d":
                if w[:2] != v[:2]:
                    return False
            elif w != v:
                return False
        return True

    def state_of(self, e, check_path=True, exclude=(), tolerant=False):
        """('T', payload) | ('U', None) | ('X', reason)

        exclude: other named entries located inside e (only possible for '.'/'..' spellings)"""
        b, a = self.before, self.after
        sigma = subtree(b, e)
        gone = e not in a
        if gone:
            cands = [p for p in self.new_payloads
                     if p not in self.claimed_payloads and
                     (subtree(a, p) == sigma or
                      (tolerant and self._same_but_skeleton(subtree(a, p), sigma)))]
            good = []
            why = "no new payload equal to the entry"
            for p in cands:
                td, nm = self.new_payloads[p]
                ip = td.rstrip("/") + "/info/" + nm + ".trashinfo"
                if ip not in a or a[ip].t != "f":
                    why = "payload %s has no .trashinfo" % p
                    continue
                if ip in b:
                    why = "payload %s paired with a pre-existing info" % p
                    continue
                raw = self.read(ip)
                pv, dv, _hdr = oracle.parse_info(raw)
                if pv is None or not oracle.date_ok(dv):
                    why = "info %s not parseable" % ip
                    continue
                if check_path and oracle.pct_decode(pv) not in self.expected_path_values(e, td):
                    why = "info %s records %r, expected location %r" % (ip, oracle.pct_decode(pv), e)
                    continue
                good.append((p, ip))
            if len(good) == 1:
                self.claimed_payloads.add(good[0][0])
                self.claimed_infos.add(good[0][1])
                return ("T", good[0][0])
            if len(good) > 1:
                for p, ip in good[:1]:
                    self.claimed_payloads.add(p)
                    self.claimed_infos.add(ip)
                return ("X", "entry present %d times in the trash" % len(good))
            # where did it go?
            partial = [p for p in self.new_payloads if p not in self.claimed_payloads]
            return ("X", "gone from its place; %s%s" % (
                why, "; unclaimed new payloads: %s" % partial if partial else ""))
        # still there: must be unchanged (directory mtimes not compared: a sibling may move)
        now = subtree(a, e, dir_mtime=False)
        was = subtree(b, e, dir_mtime=False)
        for x in exclude:
            if x != e and under(x, e):
                rel = x[len(e.rstrip("/")) + 1:]
                now = {k: v for k, v in now.items() if not under(k, rel)}
                was = {k: v for k, v in was.items() if not under(k, rel)}
        if now != was:
            # tolerate new skeleton directories inside e (e is an ancestor of a trash dir)
            extra = {k: v for k, v in now.items() if k not in was}
            missing = [k for k in was if k not in now]
            changed = [k for k in was if k in now and now[k] != was[k]]
            if not missing and not changed and all(v[0] == "d" for v in extra.values()):
                return ("U", None)
            return ("X", "still at its place but modified: missing=%s changed=%s extra=%s" % (
                missing[:4], changed[:4], sorted(extra)[:4]))
        return ("U", None)

    def leftovers(self):
        """(stray infos, orphan payloads) not claimed by any trashed argument"""
        si = sorted(p for p in self.new_infos if p not in self.claimed_infos)
        sp = sorted(p for p in self.new_payloads if p not in self.claimed_payloads)
        return si, sp

    def frame(self, entries):
        """paths of `before` outside the named entries that were lost or changed, and
        unexpected new paths"""
        b, a = self.before, self.after
        lost, changed, new = [], [], []
        for p, n in b.items():
            if any(under(p, e) for e in entries):
                continue
            m = a.get(p)
            if m is None:
                lost.append(p)
            elif sig(m, n.t != "d") != sig(n, n.t != "d"):
                changed.append(p)
        tpaths = set()
        for td in self.tdirs:
            q = td
            while q and q != "/":
                tpaths.add(q)
                q = q.rsplit("/", 1)[0]
            tpaths.add(td.rstrip("/") + "/files")
            tpaths.add(td.rstrip("/") + "/info")
        for p, n in a.items():
            if p in b:
                continue
            if any(under(p, q) for q in self.claimed_payloads) or p in self.claimed_infos:
                continue
            if p in self.new_infos or any(under(p, q) for q in self.new_payloads):
                continue  # reported by leftovers()
            if n.t == "d" and (p in tpaths or not any(not m.t == "d" for q, m in a.items()
                                                      if under(q, p))):
                continue  # skeleton directory
            new.append(p)
        return lost, changed, new
